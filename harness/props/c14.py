"""C14 - multi-graph data = union graph; mix-in / pre-inference = validating pre-expanded."""
import warnings

import rdflib
from rdflib import BNode, Literal, URIRef
from rdflib.namespace import OWL, RDF, RDFS, XSD

from .. import enc, framework as F, shapes as S, evalcheck as EC
from ..enc import EX, SH
from . import c08

PROP = "C14"
PREAMBLE_T = c08.PREAMBLE.replace("Mini.Pipeline.", "Mini.Pipeline Mini.Content.")
PREAMBLE_Q = ("From Coq Require Import List NArith Bool.\nFrom Verif Require Import Base.SetList Base.Terms Mini.Quads.\nImport ListNotations.\n")

ONT_AXIOMS = [
    (EX.C0, RDFS.subClassOf, EX.C1), (EX.C2, RDFS.subClassOf, EX.C0), (EX.p, RDFS.domain, EX.C1), (EX.q, RDFS.range, EX.C2),
    (EX.r, RDFS.subPropertyOf, EX.p), (EX.C1, RDF.type, OWL.Class), (EX.p, RDF.type, OWL.ObjectProperty), (EX.q, OWL.inverseOf, EX.r),
    (EX.C1, OWL.equivalentClass, EX.C3), (EX.n0, RDF.type, OWL.NamedIndividual), (EX.n0, EX.p, EX.n1),
    (EX.n9, EX.q, EX.n0), (EX.unrelated, EX.note, Literal("not an axiom")),
    (EX.n0, RDF.type, EX.C2), (EX.n1, RDF.type, OWL.NamedIndividual), (EX.n1, RDF.type, EX.C0), (EX.n1, EX.r, EX.n0),
]


def gen_ontology(rng, kind):
    triples = rng.sample(ONT_AXIOMS, rng.randint(2, len(ONT_AXIOMS)))
    if rng.random() < 0.6:
        # the individuals always come with their description (types, outgoing and incoming links)
        triples = list(dict.fromkeys(triples + [t for t in ONT_AXIOMS if EX.n0 in (t[0], t[2]) or EX.n1 in (t[0], t[2])]))
    if kind == "Graph":
        g = rdflib.Graph()
        for t in triples:
            g.add(t)
        return g
    g = rdflib.Dataset()
    for i, t in enumerate(triples):
        (g.default_context if rng.random() < 0.4 else g.get_context(URIRef("urn:ont%d" % (i % 2)))).add(t)
    return g


def distribute(rng, triples, kind):
    """one way of distributing the triples over the default and named graphs of a container (duplicates allowed)"""
    if kind == "Graph":
        g = rdflib.Graph()
        for t in triples:
            g.add(t)
        return g
    g = rdflib.Dataset() if kind == "Dataset" else rdflib.ConjunctiveGraph()
    if kind == "ConjunctiveGraph" and rng.random() < 0.3:
        # a ConjunctiveGraph filled from the quads of a Dataset: one of its contexts is named urn:x-rdflib:default
        ds = distribute(rng, triples, "Dataset")
        g.addN(ds.quads((None, None, None, None)))
        return g
    names = [URIRef("urn:g%d" % i) for i in range(rng.randint(1, 3))]
    if rng.random() < 0.3:
        # a graph that carries one of the names pySHACL uses for its own expansion graphs (e.g. the dataset of an earlier in-place run)
        names.append(URIRef(rng.choice(["urn:pyshacl:inference", "urn:pyshacl:inoculation"])))
    style = rng.choice(["mixed", "named_only", "default_only", "mixed"])
    for t in triples:
        if style == "default_only" or (style == "mixed" and rng.random() < 0.35):
            g.default_context.add(t)
        else:
            g.get_context(rng.choice(names)).add(t)
        if rng.random() < 0.1:
            g.get_context(rng.choice(names)).add(t)   # the same triple in two graphs
    return g


def quads_of(g):
    if isinstance(g, (rdflib.Dataset, rdflib.ConjunctiveGraph)):
        return [(c.identifier if hasattr(c, "identifier") else c, (s, p, o)) for s, p, o, c in g.quads((None, None, None, None))]
    return [(URIRef("urn:plain"), t) for t in g]


def union_of(g):
    return {q[1] for q in quads_of(g)}


def ds_coq(I, quads):
    return "[%s]" % "; ".join("(%s, (%s, %s, %s))" % (I.term(c if isinstance(c, (URIRef, BNode)) else URIRef(str(c))), I.term(t[0]), I.term(t[1]), I.term(t[2])) for c, t in quads)


def callee_cases(rng, n):
    """the real clone / inoculate / pre-inference callees on random partitions vs the quad model"""
    from pyshacl.rdfutil import clone_graph, inoculate, inoculate_dataset
    from pyshacl.validator import Validator
    bodies, meta, bad = [], [], []
    for j in range(n):
        data0, nodes, lits = S.gen_typed_data(rng, n_iri=rng.randint(2, 4), n_bn=rng.randint(0, 1), n_lit=rng.randint(0, 2), n_triples=rng.randint(2, 9))
        kind = rng.choice(["Dataset", "Dataset", "ConjunctiveGraph"])
        ds = distribute(rng, list(data0), kind)
        before_q = quads_of(ds)
        before_u = union_of(ds)
        I = enc.Interner()
        what = rng.choice(["clone", "inoculate", "inference"])
        try:
            if what == "clone":
                out = clone_graph(ds)
                bodies.append("gsame (dunion (dclone %s)) %s" % (ds_coq(I, before_q), I.graph(union_of(out))))
                if union_of(ds) != before_u:
                    bad.append({"what": "clone_graph changed its source", "container": kind})
            elif what == "inoculate":
                ont = gen_ontology(rng, rng.choice(["Graph", "Dataset"]))
                axioms = set(inoculate(rdflib.Graph(), ont))   # what the mix-in copies, onto an empty plain graph
                if kind == "ConjunctiveGraph":
                    continue  # inoculate_dataset refuses ConjunctiveGraph targets; the validator clones into a Dataset first
                tgt_id = rng.choice([None, URIRef("urn:pyshacl:ontology")])
                out = inoculate_dataset(ds, ont, None if rng.random() < 0.6 else ds, tgt_id)
                ctx = tgt_id or URIRef("urn:default")
                bodies.append("gsame (dunion (dwrite (%s) %s %s)) %s" % (I.term(ctx), I.graph(axioms), ds_coq(I, before_q), I.graph(union_of(out))))
            else:
                opt = rng.choice(["rdfs", "owlrl", "both"])
                plain = rdflib.Graph()
                for t in before_u:
                    plain.add(t)
                Validator._run_pre_inference(plain, opt)
                closure = set(plain)
                work = clone_graph(ds)
                Validator._run_pre_inference(work, opt, URIRef("urn:pyshacl:inference"))
                bodies.append("gsame (dunion (dwrite (%s) %s %s)) %s" % (I.term(URIRef("urn:pyshacl:inference")), I.graph(closure - before_u), ds_coq(I, before_q), I.graph(union_of(work))))
        except Exception as e:
            bad.append({"what": "callee raised %s: %s" % (type(e).__name__, str(e)[:200]), "callee": what, "container": kind,
                        "quads": sorted("%s | %s" % (c, " ".join(x.n3() for x in t)) for c, t in before_q)})
            continue
        meta.append({"kind": "callee " + what, "container": kind, "quads": sorted("%s | %s" % (c, " ".join(x.n3() for x in t)) for c, t in before_q)})
    return bodies, meta, bad


def same(o1, o2):
    if o1[0] != o2[0]:
        return False
    if o1[0] == "err":
        return o1[1] == o2[1]
    return o1[1] == o2[1] and EC.keys(o1) == EC.keys(o2) and blank_descriptions(o1) == blank_descriptions(o2)


def blank_descriptions(o):
    """what the report graph says about the blank focus / value nodes of its results (the copy of their description taken from the
    data graph): part of 'the same results' whatever container the data came in"""
    rg = o[4] if len(o) > 4 else None
    if rg is None:
        return None
    out = []
    for r in o[2]:
        for x in (r[0], r[1]):
            if isinstance(x, rdflib.BNode):
                out.append((x.n3(), sorted((p_.n3(), "_:b" if isinstance(o_, rdflib.BNode) else o_.n3()) for p_, o_ in rg.predicate_objects(x))))
    return sorted(out)


def main(tier, seed, replay=None):
    warnings.simplefilter("ignore")
    from pyshacl.rdfutil import inoculate
    from pyshacl.validator import Validator
    rep = F.Report(PROP, tier, seed)
    ob = F.coq_build(["Props/C14.v"], translators=["t1"])
    rng = F.rng_for(seed, PROP)
    big = tier == "thorough"

    # ---- Tie A: content traces of the real runners vs the generated programs under the content summaries
    vals = [dict(ont=a, inplace=b, preinf=c, multi=d, inference=e, advanced=f, sparql=False, functions=False, rules=i)
            for a in (False, True) for b in (False, True) for c in (False, True) for d in (False, True)
            for e in (None, "none", "rdfs", "owlrl", "both") for f in (False, True) for i in (False, True)]
    bt, mt = [], []
    for v in (vals if big else rng.sample(vals, 70)):
        for api in ("validate", "rules"):
            if api == "rules" and not v["advanced"]:
                continue
            c08.real_trace(api, v, None)
            ev = c08.real_trace.last_content
            run = "run_validator_content" if api == "validate" else "run_rules_content"
            bt.append("trace_eqb (trace (snd (%s (%s)))) [%s]" % (run, c08.valuation_coq(v), "; ".join(ev)))
            mt.append({"kind": "content trace of " + api, "valuation": v, "recorded": ev, "model": "trace (snd (%s (%s)))" % (run, c08.valuation_coq(v))})
    bq, mq, bad = callee_cases(rng, 600 if big else 90)
    if ob.ok:
        failed_t, err_t = F.coq_eval("c14t", PREAMBLE_T, bt, shard=60)
        failed_q, err_q = F.coq_eval("c14q", PREAMBLE_Q, bq, shard=60)
        errors = err_t + err_q
    else:
        failed_t, failed_q, errors = [], [], ["coq build broken"]

    # ---- the property on the real code
    n = 900 if big else 110
    diffs, stats = [], {"container_pairs": 0, "expansion_pairs": 0, "nonconforming": 0, "errors": 0}
    for j in range(n):
        c = EC.base_case(rng)
        triples = list(c["data"])
        inf = rng.choice(["none", "none", "rdfs", "owlrl", "both"])
        adv = rng.random() < 0.25
        opts = {"inference": inf, "advanced": adv}
        if rng.random() < 0.2:
            opts["abort_on_first"] = True
        ontk = rng.choice([None, None, "Graph", "Dataset"])
        ont_triples = None
        if ontk:
            og = gen_ontology(rng, ontk)
            ont_triples = quads_of(og)
            if rng.random() < 0.6:
                # the data graph repeats some of the ontology's declarations (an individual, a class, a property) without the
                # rest of their description: the mix-in still has to bring that description along, in every container
                decl = [t for _, t in ont_triples if t[1] == RDF.type and t[2] in (OWL.NamedIndividual, OWL.Class, OWL.ObjectProperty)]
                decl.sort(key=lambda t: 0 if t[2] == OWL.NamedIndividual else 1)
                for t in decl[:rng.randint(1, 2)] + rng.sample(decl, min(len(decl), 1)):
                    triples.append(t)

        def ont():
            if not ontk:
                return None
            if ontk == "Graph":
                g = rdflib.Graph()
                for _, t in ont_triples:
                    g.add(t)
                return g
            g = rdflib.Dataset()
            for cx, t in ont_triples:
                g.get_context(cx).add(t) if str(cx) != str(g.default_context.identifier) else g.default_context.add(t)
            return g
        base = S.run_validate(distribute(rng, triples, "Graph"), c["sg"], ont_graph=ont(), **opts)
        stats["nonconforming"] += 1 if base[0] == "ok" and not base[1] else 0
        stats["errors"] += 1 if base[0] == "err" else 0
        # (a) every container and distribution gives the plain graph's report
        for kind in ("Dataset", "ConjunctiveGraph"):
            for rep_i in range(2):
                o2 = dict(opts)
                if rng.random() < 0.3:
                    o2["inplace"] = True
                dsx = distribute(rng, triples, kind)
                qx = quads_of(dsx)
                got = S.run_validate(dsx, c["sg"], ont_graph=ont(), **o2)
                stats["container_pairs"] += 1
                if not same(base, got):
                    diffs.append((c, "a %s holding the same triples gives another report than the plain Graph (options %r)" % (kind, o2), base, got,
                                  sorted("%s | %s" % (cx, " ".join(x.n3() for x in t)) for cx, t in qx)))
        # (b) ontology / inference = validating the graph expanded beforehand
        if ontk or inf != "none":
            pre = rdflib.Graph()
            for t in triples:
                pre.add(t)
            if ontk:
                inoculate(pre, ont())
            if inf != "none":
                Validator._run_pre_inference(pre, inf)
            got = S.run_validate(pre, c["sg"], **{k: v for k, v in opts.items() if k != "inference"})
            stats["expansion_pairs"] += 1
            if not same(base, got):
                diffs.append((c, "validating with ont_graph=%s inference=%s differs from validating the pre-expanded graph with neither" % (ontk, inf), base, got, None))
    # (c) SHACL rules read the union as well: what a rule derives from triples of a named graph is seen by the shapes
    RULES_TTL = """@prefix sh: <http://www.w3.org/ns/shacl#> . @prefix ex: <http://ex.org/> . @prefix owl: <http://www.w3.org/2002/07/owl#> . @prefix xsd: <http://www.w3.org/2001/XMLSchema#> .
ex:prefixes a owl:Ontology ; sh:declare [ sh:prefix "ex" ; sh:namespace "http://ex.org/"^^xsd:anyURI ] .
ex:R a sh:NodeShape ; sh:targetClass ex:C0 ; sh:rule [ a sh:TripleRule ; sh:subject sh:this ; sh:predicate ex:marked ; sh:object ex:Yes ] .
ex:R2 a sh:NodeShape ; sh:targetSubjectsOf ex:p ; sh:rule [ a sh:SPARQLRule ; sh:prefixes ex:prefixes ; sh:construct "CONSTRUCT { $this ex:linked ?o } WHERE { $this ex:p ?o . ?o ex:q ?z }" ] .
ex:R3 a sh:NodeShape ; sh:targetClass ex:C0 , ex:C1 ; sh:rule [ a sh:SPARQLRule ; sh:prefixes ex:prefixes ; sh:construct "CONSTRUCT { $this ex:cleared true } WHERE { $this a ?c . FILTER NOT EXISTS { $this ex:q ?z } }" ] .
ex:V3 a sh:NodeShape ; sh:targetSubjectsOf ex:q ; sh:property [ sh:path ex:cleared ; sh:maxCount 0 ] .
ex:V a sh:NodeShape ; sh:targetSubjectsOf ex:marked ; sh:property [ sh:path ex:q ; sh:minCount 1 ] .
ex:V2 a sh:NodeShape ; sh:targetSubjectsOf ex:linked ; sh:property [ sh:path ex:linked ; sh:maxCount %d ] .
"""
    import pyshacl
    for j in range(120 if big else 16):
        data, nodes, lits = S.gen_typed_data(rng, n_iri=rng.randint(3, 5), n_bn=rng.randint(0, 1), n_lit=1, n_triples=rng.randint(5, 12))
        triples = list(data)
        sgr = rdflib.Graph().parse(data=RULES_TTL % rng.choice([0, 0, 1]), format="turtle")
        opts = {"advanced": True, "inference": rng.choice(["none", "none", "none", "rdfs"])}
        if rng.random() < 0.5:
            opts["iterate_rules"] = True
        cr = {"sg": sgr, "data": data}
        base = S.run_validate(distribute(rng, triples, "Graph"), sgr, **opts)
        stats["nonconforming"] += 1 if base[0] == "ok" and not base[1] else 0
        ro = {k: v for k, v in opts.items() if k != "advanced"}
        try:
            base_rules = set(pyshacl.shacl_rules(distribute(rng, triples, "Graph"), shacl_graph=sgr, **ro))
        except Exception as e:
            base_rules = ("err", enc.exn_name(e))
        for kind in ("Dataset", "ConjunctiveGraph"):
            for rep_i in range(2):
                o2 = dict(opts)
                if rng.random() < 0.3:
                    o2["inplace"] = True
                dsx = distribute(rng, triples, kind)
                qx = quads_of(dsx)
                got = S.run_validate(dsx, sgr, **o2)
                stats["rule_container_pairs"] = stats.get("rule_container_pairs", 0) + 1
                if not same(base, got):
                    diffs.append((cr, "rules + shapes over a %s holding the same triples give another report than over the plain Graph (options %r)" % (kind, o2), base, got,
                                  sorted("%s | %s" % (cx, " ".join(x.n3() for x in t)) for cx, t in qx)))
                try:
                    out = pyshacl.shacl_rules(distribute(rng, triples, kind), shacl_graph=sgr, **ro)
                    got_rules = union_of(out)
                except Exception as e:
                    got_rules = ("err", enc.exn_name(e))
                if got_rules != base_rules:
                    diffs.append((cr, "shacl_rules() over a %s holding the same triples derives other triples than over the plain Graph (options %r)" % (kind, ro), base, base, sorted("%s | %s" % (cx, " ".join(x.n3() for x in t)) for cx, t in qx)))
    # (d) "ontology axioms added": for an ontology that consists of RDFS/OWL axioms only (class and property declarations, subclass /
    # domain / range / inverse / equivalence axioms, named and anonymous restrictions with their owl:onProperty, owl:hasValue,
    # owl:someValuesFrom, owl:allValuesFrom, cardinalities, enumerations) the mix-in of the ontology into an empty data graph is the ontology
    from rdflib.compare import isomorphic as _iso
    TBOX_TTL = """@prefix ex: <http://ex.org/> . @prefix owl: <http://www.w3.org/2002/07/owl#> . @prefix rdfs: <http://www.w3.org/2000/01/rdf-schema#> . @prefix xsd: <http://www.w3.org/2001/XMLSchema#> .
%s"""
    TBOX_AXIOMS = ["ex:C0 a owl:Class ; rdfs:subClassOf ex:C1 .", "ex:C1 a rdfs:Class .", "ex:p a owl:ObjectProperty ; rdfs:domain ex:C1 ; rdfs:range ex:C2 .", "ex:q a owl:DatatypeProperty ; rdfs:subPropertyOf ex:r .",
                   "ex:p owl:inverseOf ex:pinv . ex:pinv a owl:ObjectProperty .", "ex:C1 owl:equivalentClass ex:C3 . ex:C3 a owl:Class .", "ex:RedThing a owl:Restriction ; owl:onProperty ex:colour ; owl:hasValue ex:red .",
                   "ex:C2 rdfs:subClassOf [ a owl:Restriction ; owl:onProperty ex:p ; owl:someValuesFrom ex:C0 ] .", "ex:Parent a owl:Restriction ; owl:onProperty ex:child ; owl:minCardinality \"1\"^^xsd:nonNegativeInteger .",
                   "ex:OnlyC a owl:Restriction ; owl:onProperty ex:p ; owl:allValuesFrom ex:C1 .", "ex:colour a owl:ObjectProperty , owl:FunctionalProperty .", "ex:C4 a owl:Class ; owl:disjointWith ex:C0 .",
                   "ex:p owl:propertyChainAxiom ( ex:q ex:r ) .", "ex:Both a owl:Class ; owl:intersectionOf ( ex:C0 ex:RedThing ) .", "ex:r a owl:TransitiveProperty , owl:SymmetricProperty .",
                   # lists in which a member occurs twice (a chain of one property with itself, a union naming a class twice)
                   "ex:grandparent owl:propertyChainAxiom ( ex:parent ex:parent ) .", "ex:Twice a owl:Class ; owl:unionOf ( ex:C0 ex:C1 ex:C0 ) .",
                   "ex:ggp owl:propertyChainAxiom ( ex:parent ex:parent ex:parent ) ."]
    for j in range(60 if big else 12):
        chosen = rng.sample(TBOX_AXIOMS, rng.randint(2, len(TBOX_AXIOMS)))
        og = rdflib.Graph().parse(data=TBOX_TTL % "\n".join(chosen), format="turtle")
        forms = [("Graph", og)]
        dso = rdflib.Dataset()
        for k_, t_ in enumerate(sorted(og)):
            (dso.default_context if k_ % 3 == 0 else dso.graph(URIRef("urn:o%d" % (k_ % 2)))).add(t_)
        # (blank-node restrictions must stay in one graph to keep their description together: only use the Dataset form without them)
        if not any(isinstance(t_[0], BNode) or isinstance(t_[2], BNode) for t_ in og):
            forms.append(("Dataset", dso))
        for fname, o_ in forms:
            target = rdflib.Graph()
            try:
                inoculate(target, o_)
            except Exception as e:
                diffs.append(({"sg": rdflib.Graph(), "data": rdflib.Graph()}, "mixing a pure axiom ontology (%s) into an empty graph raised %s: %s" % (fname, type(e).__name__, str(e)[:150]), ("ok", True, [], "", None), ("ok", True, [], "", None), sorted(chosen)))
                continue
            stats["axiom_mixins"] = stats.get("axiom_mixins", 0) + 1
            if not _iso(target, og):
                from rdflib.compare import graph_diff, to_isomorphic
                _, only_o, only_t = graph_diff(to_isomorphic(og), to_isomorphic(target))
                diffs.append(({"sg": rdflib.Graph(), "data": rdflib.Graph()}, "the mix-in of an ontology of RDFS/OWL axioms only (%s) into an empty data graph is not that ontology: axioms lost %s; triples invented %s"
                              % (fname, sorted(" ".join(x.n3() for x in t_) for t_ in only_o)[:6], sorted(" ".join(x.n3() for x in t_) for t_ in only_t)[:6]), ("ok", True, [], "", None), ("ok", True, [], "", None), sorted(chosen)))
    # (e) the same container object validated again after its triples were moved between its graphs (still the same T): nothing that an
    # earlier run learnt about where a node is described may be used; the report (text included, which describes blank nodes in place)
    # equals the report over a fresh container with the same quads, and the report over the plain Graph
    MOVE_TTL = """@prefix sh: <http://www.w3.org/ns/shacl#> . @prefix ex: <http://ex.org/> .
ex:MV a sh:NodeShape ; sh:targetSubjectsOf ex:p ; sh:property [ sh:path ex:p ; sh:nodeKind sh:IRI ; sh:message "value {$value}" ] .
ex:MF a sh:NodeShape ; sh:targetObjectsOf ex:p ; sh:property [ sh:path ex:q ; sh:maxCount 0 ] .
"""

    def text_key(o):
        return sorted("".join(sorted(c18_label_free(l))) for l in (o[3] or "").splitlines()) if o[0] == "ok" else o[:2]

    import re as _re
    _lab = _re.compile(r"\b[Nn][0-9a-f]{32}(?:b[0-9]+)?\b")
    c18_label_free = lambda l: _lab.sub("B", l)
    sgm = rdflib.Graph().parse(data=MOVE_TTL, format="turtle")
    for j in range(150 if big else 20):
        iris_ = [EX["m%d" % i] for i in range(rng.randint(2, 4))]
        triples = []
        for i, x in enumerate(iris_):
            b_ = BNode("mv%d_%d" % (j, i))
            triples += [(x, EX.p, b_), (b_, EX.q, rdflib.Literal(i)), (b_, EX.r, rdflib.Literal("d%d" % i))]
            if rng.random() < 0.4:
                triples.append((x, EX.p, rng.choice(iris_)))
        kind = rng.choice(["Dataset", "ConjunctiveGraph"])
        dsx = rdflib.Dataset() if kind == "Dataset" else rdflib.ConjunctiveGraph()
        # every blank node's description sits in one named graph of its own choice
        home = {}
        for t in triples:
            key = t[0] if isinstance(t[0], BNode) else t[2] if isinstance(t[2], BNode) else None
            ctx = home.setdefault(key, URIRef("urn:h%d" % rng.randrange(3)))
            dsx.get_context(ctx).add(t)
        o2 = {"inplace": True} if rng.random() < 0.3 else {}
        first = S.run_validate(dsx, sgm, **o2)
        # move: the triples of one named graph go to a graph with another name
        names = sorted({c_ for c_, _ in quads_of(dsx) if str(c_).startswith("urn:h")}, key=str)
        src = rng.choice(names)
        dst = URIRef("urn:moved%d" % j)
        for t in list(dsx.get_context(src)):
            dsx.get_context(dst).add(t)
            dsx.get_context(src).remove(t)
        again = S.run_validate(dsx, sgm, **o2)
        fresh_c = rdflib.Dataset() if kind == "Dataset" else rdflib.ConjunctiveGraph()
        for c_, t in quads_of(dsx):
            (fresh_c.get_context(c_) if c_ is not None and str(c_).startswith("urn:") else fresh_c.default_context).add(t)
        fresh = S.run_validate(fresh_c, sgm, **o2)
        plain = S.run_validate(distribute(rng, triples, "Graph"), sgm)
        stats["moved_container_cases"] = stats.get("moved_container_cases", 0) + 1
        cm = {"sg": sgm, "data": distribute(rng, triples, "Graph")}
        if not same(again, fresh) or text_key(again) != text_key(fresh):
            diffs.append((cm, "a %s validated a second time after the triples of <%s> were moved to <%s> reports otherwise than a fresh container holding the same quads (options %r)" % (kind, src, dst, o2),
                          fresh, again, sorted("%s | %s" % (cx, " ".join(x.n3() for x in t)) for cx, t in quads_of(dsx))))
        elif not same(again, plain) or not same(first, plain):
            diffs.append((cm, "a %s holding the same triples gives another report than the plain Graph (options %r)" % (kind, o2), plain, again if not same(again, plain) else first,
                          sorted("%s | %s" % (cx, " ".join(x.n3() for x in t)) for cx, t in quads_of(dsx))))
    for c, what, o1, o2, quads in diffs[:8]:
        d = S.describe_case(c["sg"], c["data"], {}, o1)
        d["what"] = what
        d["other_observed"] = S.describe_case(c["sg"], c["data"], {}, o2)["observed"]
        if quads:
            d["distribution"] = quads
        rep.violation(d)
    for d in bad[:5]:
        rep.violation(d)
    for k in failed_t[:5]:
        d = dict(mt[k])
        d["what"] = "Tie A: the real runner's content trace differs from the generated program's"
        d["model_value"] = F.coq_show("c14", PREAMBLE_T, d["model"])
        rep.violation(d)
    for k in failed_q[:5]:
        d = dict(mq[k])
        d["what"] = "a real callee does not act on the union of quads as the model says (%s)" % d["kind"]
        rep.violation(d)
    if (not ob.ok or errors) and not rep.violations:
        rep.violation({"obligation": ob.broken or errors, "detail": ob.log[-1500:]}, no_input=True)

    cov = F.proof_coverage(ob, [
        "translator/t1.py + PyMini; content summaries of coq/Mini/Content.v (inoculate/inoculate_dataset = Mix, _run_pre_inference = Infer, apply_rules = Write, clone_graph = Clone), each compared with the real callee at quad level by this run",
        "rdflib: a Dataset/ConjunctiveGraph with default_union=True answers every read from the union of its graphs (assumed; exercised by the container differential)",
        "owlrl closure and pyshacl's axiom selection (inoculate) are used as given: the reference expansion calls the same functions on a plain Graph",
    ])
    cov.update({
        "evaluations": len(bt) + len(bq) + stats["container_pairs"] + stats["expansion_pairs"] + n,
        "distinct_nontrivial": stats["container_pairs"] + stats["expansion_pairs"],
        "rule": "(1) Tie A: recorded Clone/Mix/Infer/Write traces of Validator.run and RuleExpandRunner.run = generated programs under the content summaries; (2) callees: clone_graph, inoculate_dataset (new/own target, default or named destination), _run_pre_inference (rdfs/owlrl/both, named destination) on Datasets/ConjunctiveGraphs with random distributions (default-only, named-only, mixed, duplicated triples): union of quads after = model (dclone / dwrite); "
                "(3) the property: random shapes/data x inference {none, rdfs, owlrl, both} x ontology {none, Graph, Dataset} x advanced x abort_on_first: the plain Graph's report = the report of 2 Dataset and 2 ConjunctiveGraph distributions (inplace on/off) and = plain validation of the graph expanded beforehand with inoculate + the same closure; (5) 'axioms added': an ontology of RDFS/OWL axioms only (named and anonymous restrictions included) mixed into an empty graph is that ontology; (4) rule sets (TripleRule, SPARQLRule) feeding shapes, through validate(advanced) and shacl_rules(): Dataset / ConjunctiveGraph distributions (caller-built, default_union as rdflib creates them) = plain Graph",
        "distribution": dict(stats, tie_a_traces=len(bt), callee_cases=len(bq), model_disagreements=len(failed_t) + len(failed_q), differences=len(diffs), callee_errors=len(bad)),
        "samples": (mq[:1] + mt[:1]) or [{"note": "no cases"}],
        "exhaustive": False,
    })
    rep.coverage = cov
    rep.assumptions = ["blank nodes of the ontology are copied with fresh labels by inoculate: reports are compared through result keys that mention data/shape terms only"]
    return rep.finish()
