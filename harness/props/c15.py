"""C15 - SHACL rules only add justified triples, in the documented order."""
import warnings

import rdflib
from rdflib import BNode, Literal, URIRef
from rdflib.namespace import RDF, RDFS, XSD

from .. import enc, framework as F, shapes as S, evalcheck as EC
from ..enc import EX, SH

PROP = "C15"
PREAMBLE = EC.PREAMBLE.replace("Shapes.EvalCheck.", "Shapes.EvalCheck Rules.Rules Rules.RulesCheck.") + "Open Scope Z_scope.\n"
PREDS = [EX.p, EX.q, EX.r]


# ------------------------------------------------------------------ generator
def gen_nexpr(rng, nodes, position):
    r = rng.random()
    if position == "p":
        # mostly a constant; sometimes the focus node itself or what a path reaches from it (sh:this is an IRI as well,
        # but not a constant)
        if r < 0.3:
            return ("this",)
        return ("const", rng.choice(PREDS + [EX.s, RDF.type]))
    if r < 0.4:
        return ("this",)
    if r < 0.7:
        return ("const", rng.choice(nodes + ([Literal(7), Literal("x")] if position == "o" else []) + [EX.C1, EX.Marked]))
    path = rng.choice([("pred", str(rng.choice(PREDS))), ("inv", ("pred", str(rng.choice(PREDS)))),
                       ("seq", [("pred", str(rng.choice(PREDS))), ("pred", str(rng.choice(PREDS)))]),
                       ("star", ("pred", str(rng.choice(PREDS))))])
    return ("path", path)


CONSTRUCTS = [
    # (head, body) with pattern terms: ("this",) | ("var", n) | ("const", term)
    ([(("this",), ("const", EX.q), ("var", 1))], [(("this",), ("const", EX.p), ("var", 1))]),
    ([(("var", 1), ("const", EX.r), ("this",))], [(("this",), ("const", EX.p), ("var", 1)), (("var", 1), ("const", EX.q), ("var", 2))]),
    ([(("this",), ("const", RDF.type), ("const", EX.C1))], [(("this",), ("const", EX.p), ("var", 1))]),
    ([(("this",), ("const", EX.q), ("var", 1)), (("var", 1), ("const", EX.r), ("const", EX.n0))],
     [(("this",), ("const", EX.p), ("var", 1)), (("var", 1), ("const", EX.p), ("var", 2))]),
    # transitive closure of ex:p: needs iteration to complete
    ([(("this",), ("const", EX.p), ("var", 2))], [(("this",), ("const", EX.p), ("var", 1)), (("var", 1), ("const", EX.p), ("var", 2))]),
    ([(("var", 1), ("const", EX.s), ("const", EX.Marked))], [(("var", 1), ("const", EX.q), ("var", 2))]),
    ([(("this",), ("const", EX.s), ("const", Literal("seen")))], []),
]


def pat_sparql(t):
    if t[0] == "this":
        return "$this"
    if t[0] == "var":
        return "?v%d" % t[1]
    return t[1].n3()


def construct_text(head, body):
    h = " . ".join(" ".join(pat_sparql(x) for x in tp) for tp in head)
    b = " . ".join(" ".join(pat_sparql(x) for x in tp) for tp in body)
    return "CONSTRUCT { %s } WHERE { %s }" % (h, b)


def gen_case(rng):
    data, nodes, lits = S.gen_typed_data(rng, n_iri=rng.randint(2, 5), n_bn=rng.randint(0, 1), n_lit=rng.randint(0, 2), n_triples=rng.randint(3, 12))
    iri_nodes = [n for n in nodes if isinstance(n, URIRef)]
    shapes, rules = [], {}
    chain = rng.random() < 0.3
    selffeed = chain and rng.random() < 0.5
    if selffeed:
        while len(iri_nodes) < 5:
            iri_nodes.append(EX["ch%d" % len(iri_nodes)])
            nodes.append(iri_nodes[-1])
    if chain:
        # a chain of ex:p links: the transitive-closure rule needs several rounds, conditions become true on the way
        for a, b in zip(iri_nodes, iri_nodes[1:]):
            data.add((a, EX.p, b))
    # condition shapes: small node shapes without targets
    conds = []
    for k in range(rng.randint(1, 3)):
        c = S.new_shape(EX["Cond%d" % k], None)
        kind = rng.choice(["class", "prop", "hasq", "nots"])
        if kind == "class":
            c["comps"].append(("class", [rng.choice(S.CLASSES)]))
        elif kind == "prop":
            ps = S.new_shape(BNode("condp%d_%06x" % (k, rng.getrandbits(24))), ("pred", str(rng.choice(PREDS))))
            ps["comps"].append(("mincount", 1))
            shapes.append(ps)
            c["comps"].append(("property", [ps["id"]]))
        elif kind == "hasq":
            ps = S.new_shape(BNode("condq%d_%06x" % (k, rng.getrandbits(24))), ("pred", str(EX.q)))
            ps["comps"].append(("maxcount", 0))
            shapes.append(ps)
            c["comps"].append(("property", [ps["id"]]))
        else:
            inner = S.new_shape(BNode("condn%d_%06x" % (k, rng.getrandbits(24))), None)
            inner["comps"].append(("class", [EX.C1]))
            shapes.append(inner)
            c["comps"].append(("not", [inner["id"]]))
        shapes.append(c)
        conds.append(c["id"])
    from decimal import Decimal
    D = lambda x: Decimal(x)
    # distinct values, several of them sharing their integer part
    orders = rng.sample([D("-2"), D("-1.5"), D("-1.2"), D("0"), D("0.5"), D("1"), D("1.2"), D("1.7"), D("3"), D("8")], 4)
    n_shapes = rng.randint(1, 3)
    for i in range(n_shapes):
        s = S.new_shape(EX["RS%d" % i], None)
        t = rng.random()
        if t < 0.5:
            s["targets"]["nodes"] = rng.sample(nodes, rng.randint(1, min(3, len(nodes))))
        elif t < 0.75:
            s["targets"]["classes"] = [rng.choice(S.CLASSES)]
        else:
            s["targets"]["subjects_of"] = [rng.choice(PREDS)]
        if rng.random() < 0.3:
            s["comps"].append(("class", [rng.choice(S.CLASSES)]))
        s["order"] = orders[i]
        rs = []
        rorders = rng.sample([D("0"), D("0.2"), D("0.5"), D("1.2"), D("1.5"), D("2"), D("4"), D("7.5")], 3)
        for j in range(rng.randint(1, 3)):
            r = {"node": BNode("rule%d_%d_%06x" % (i, j, rng.getrandbits(24))), "order": rorders[j], "deact": rng.random() < 0.15,
                 "conds": rng.sample(conds, rng.choice([0, 0, 1, 1, 2]) if len(conds) >= 2 else rng.choice([0, 1]))}
            if rng.random() < 0.5:
                r["kind"] = ("triple", gen_nexpr(rng, iri_nodes, "s"), gen_nexpr(rng, iri_nodes, "p"), gen_nexpr(rng, iri_nodes + lits, "o"))
                if r["kind"][1][0] == "const" and isinstance(r["kind"][1][1], Literal):
                    r["kind"] = ("triple", ("this",), r["kind"][2], r["kind"][3])
                # a predicate taken from the focus node only where every focus node is an IRI (explicit IRI target nodes): RDF has no
                # triples with literal or blank predicates, and what rdflib does with them is not the property's business
                iri_focus = list(s["targets"]) == ["nodes"] or all(not v for k_, v in s["targets"].items() if k_ != "nodes")
                iri_focus = iri_focus and all(isinstance(x, URIRef) for x in s["targets"].get("nodes", []))
                if r["kind"][2][0] == "path" or (r["kind"][2][0] == "this" and not iri_focus):
                    r["kind"] = ("triple", r["kind"][1], ("const", rng.choice(PREDS + [EX.s])), r["kind"][3])
            else:
                r["kind"] = ("construct",) + rng.choice(CONSTRUCTS)
            if chain and j == 0:
                r["kind"] = ("construct",) + CONSTRUCTS[4]
                r["deact"] = False
                if selffeed:
                    # the same closure step as a TRIPLE rule that reads the predicate it writes (two hops of ex:p from the focus node):
                    # within one pass every focus node sees the graph as it was when the pass began, whichever node is taken first
                    r["kind"] = ("triple", ("this",), ("const", EX.p), ("path", ("seq", [("pred", str(EX.p)), ("pred", str(EX.p))])))
                    s["targets"] = {"nodes": list(iri_nodes), "classes": [], "subjects_of": [], "objects_of": []}
            rs.append(r)
        if i == 0 and rng.random() < 0.3:
            # a dependent pair with orders that share their integer part, harvested in either order:
            # the later rule copies what the earlier one derived
            lo, hi = rng.choice([(D("1.2"), D("1.5")), (D("0"), D("0.5")), (D("-1.5"), D("-1.2")), (D("2"), D("2.25"))])
            early = {"node": BNode("dep_e_%06x" % rng.getrandbits(24)), "order": lo, "deact": False, "conds": [],
                     "kind": ("construct", [(("this",), ("const", EX.q), ("var", 1))], [(("this",), ("const", EX.p), ("var", 1))])}
            late = {"node": BNode("dep_l_%06x" % rng.getrandbits(24)), "order": hi, "deact": False, "conds": [],
                    "kind": ("construct", [(("this",), ("const", EX.s), ("var", 1))], [(("this",), ("const", EX.q), ("var", 1))])}
            rs = [late, early] if rng.random() < 0.6 else [early, late]
        if chain and i == 0 and rng.random() < 0.6:
            # a rule that stays productive over several applications (closure of ex:p, one hop per application) followed by a rule
            # whose condition is NOT monotone (few ex:p values): the documented schedule applies the shape's rule list pass by pass,
            # so the second rule fires after the first pass, before the closure is complete
            few = S.new_shape(BNode("fewp_%06x" % rng.getrandbits(24)), ("pred", str(EX.p)))
            few["comps"].append(("maxcount", rng.choice([1, 2, 2])))
            cfew = S.new_shape(EX["CondFew%d" % i], None)
            cfew["comps"].append(("property", [few["id"]]))
            shapes.extend([few, cfew])
            closure = {"node": BNode("clo_%06x" % rng.getrandbits(24)), "order": D("0.2"), "deact": False, "conds": [], "kind": ("construct",) + CONSTRUCTS[4]}
            flag = {"node": BNode("few_%06x" % rng.getrandbits(24)), "order": D("0.7"), "deact": False, "conds": [cfew["id"]],
                    "kind": ("triple", ("this",), ("const", EX.s), ("const", Literal("few")))}
            rs = [flag, closure] if rng.random() < 0.5 else [closure, flag]
            s["targets"] = {"nodes": iri_nodes[:2], "classes": [], "subjects_of": [], "objects_of": []}
        rules[s["id"]] = rs
        shapes.append(s)
    opts = {"iterate_rules": rng.random() < (0.3 if selffeed else 0.8 if chain else 0.5)}
    r = rng.random()
    rule_shapes = [s for s in shapes if s["id"] in rules]
    if len(rule_shapes) >= 2 and rng.random() < 0.3:
        # one rule node that is the sh:rule of two shapes (with their own targets): it fires for the focus nodes of each of them
        a_, b_ = rng.sample(rule_shapes, 2)
        shared = rng.choice(rules[a_["id"]])
        if all(x["order"] != shared["order"] for x in rules[b_["id"]]):
            rules[b_["id"]].append(shared)
    if r < 0.12:
        opts["focus_nodes"] = [str(x) for x in rng.sample(iri_nodes, rng.randint(1, min(2, len(iri_nodes))))]
    elif r < 0.2:
        opts["use_shapes"] = [str(rng.choice(rule_shapes)["id"])]
    elif r < 0.28:
        opts["use_shapes"] = [str(rng.choice(rule_shapes)["id"])]
        opts["focus_nodes"] = [str(x) for x in rng.sample(iri_nodes, rng.randint(1, min(2, len(iri_nodes))))]
    sg = S.shapes_to_rdf(shapes)
    written = set()
    for s in rule_shapes:
        sg.add((s["id"], SH.order, Literal(s["order"])))
        for r_ in rules[s["id"]]:
            n = r_["node"]
            sg.add((s["id"], SH.rule, n))
            if n in written:
                continue      # a rule node shared by two shapes is described once
            written.add(n)
            sg.add((n, SH.order, Literal(r_["order"])))
            if r_["deact"]:
                sg.add((n, SH.deactivated, Literal(True)))
            if r_["conds"]:
                if len(r_["conds"]) > 1 and rng.random() < 0.5:
                    sg.add((n, SH.condition, enc.rdf_list(sg, r_["conds"])))
                else:
                    for c in r_["conds"]:
                        sg.add((n, SH.condition, c))
            if r_["kind"][0] == "triple":
                sg.add((n, RDF.type, SH.TripleRule))
                for pred, e in zip((SH.subject, SH.predicate, SH.object), r_["kind"][1:]):
                    if e[0] == "this":
                        sg.add((n, pred, SH.this))
                    elif e[0] == "const":
                        sg.add((n, pred, e[1]))
                    else:
                        b = BNode()
                        sg.add((n, pred, b))
                        sg.add((b, SH.path, enc.path_to_rdf(sg, e[1])))
            else:
                sg.add((n, RDF.type, SH.SPARQLRule))
                sg.add((n, SH.construct, Literal(construct_text(r_["kind"][1], r_["kind"][2]))))
    return {"shapes": shapes, "rules": rules, "sg": sg, "data": data, "opts": opts, "nodes": nodes}


# ------------------------------------------------------------------ reference implementation (independent of pyshacl.rules)
def eval_simple_path(g, p, x):
    k = p[0]
    if k == "pred":
        return set(g.objects(x, URIRef(p[1])))
    if k == "inv":
        assert p[1][0] == "pred"
        return set(g.subjects(URIRef(p[1][1]), x))
    if k == "seq":
        cur = {x}
        for q in p[1]:
            cur = set().union(*[eval_simple_path(g, q, y) for y in cur]) if cur else set()
        return cur
    if k == "star":
        seen, todo = {x}, [x]
        while todo:
            y = todo.pop()
            for z in eval_simple_path(g, p[1], y):
                if z not in seen:
                    seen.add(z)
                    todo.append(z)
        return seen
    raise ValueError(p)


def ref_targets(g, sg, s):
    t, out = s["targets"], set(s["targets"]["nodes"])
    classes = set(t["classes"])
    if (s["id"], RDF.type, RDFS.Class) in sg:
        classes.add(s["id"])
    for c in classes:
        subs = {c}
        todo = [c]
        while todo:
            y = todo.pop()
            for z in g.subjects(RDFS.subClassOf, y):
                if z not in subs:
                    subs.add(z)
                    todo.append(z)
        for c2 in subs:
            out.update(g.subjects(RDF.type, c2))
    for p in t["subjects_of"]:
        out.update(g.subjects(URIRef(p), None))
    for p in t["objects_of"]:
        out.update(g.objects(None, URIRef(p)))
    return out


def ref_conforms(g, case, cond, f):
    """does node f conform to shape cond? the shapes graph with every target removed and `cond sh:targetNode f` added"""
    import pyshacl
    sg2 = rdflib.Graph()
    for tr in case["sg"]:
        if tr[1] in (SH.targetNode, SH.targetClass, SH.targetSubjectsOf, SH.targetObjectsOf, SH.rule):
            continue
        if tr[1] == RDF.type and tr[2] == RDFS.Class:
            continue
        sg2.add(tr)
    sg2.add((cond, SH.targetNode, f))
    conforms, _, _ = pyshacl.validate(g, shacl_graph=sg2)
    return conforms


def ref_fire(g, rule, a):
    k = rule["kind"]
    if k[0] == "triple":
        sets = []
        for e in k[1:]:
            sets.append({a} if e[0] == "this" else ({e[1]} if e[0] == "const" else eval_simple_path(g, e[1], a)))
        return {(s, p, o) for s in sets[0] for p in sets[1] for o in sets[2]}
    text = construct_text(k[1], k[2])
    res = g.query(text, initBindings={"this": a} if "$this" in text else {})
    return set(res.graph)


def reference(case, limit=100):
    """the documented procedure: shapes by ascending sh:order, rules by ascending sh:order, each rule on the focus nodes of
    its shape that conform to all its conditions, later rules see earlier triples; with iterate_rules: a rule, and the whole
    pass over the shape's rules, repeat until nothing is added"""
    g = rdflib.Graph()
    for tr in case["data"]:
        g.add(tr)
    opts = case["opts"]
    iterate = opts.get("iterate_rules", False)
    use = [URIRef(u) for u in opts.get("use_shapes", [])] or None
    foc = [URIRef(u) for u in opts.get("focus_nodes", [])] or None
    rule_shapes = sorted([s for s in case["shapes"] if s["id"] in case["rules"] and (use is None or s["id"] in use)], key=lambda s: s["order"])
    for s in rule_shapes:
        rounds = 0
        while True:
            rounds += 1
            if rounds > limit:
                return "Reportable"
            changed = False
            for rule in sorted(case["rules"][s["id"]], key=lambda r: r["order"]):
                if rule["deact"]:
                    continue
                if use is not None and foc is not None:
                    foci = list(foc)
                else:
                    foci = ref_targets(g, case["sg"], s)
                    if foc is not None:
                        foci = [f for f in foci if isinstance(f, URIRef) and f in foc]
                nodes = [f for f in foci if all(ref_conforms(g, case, c, f) for c in rule["conds"])]
                inner = 0
                while True:
                    inner += 1
                    if inner > limit:
                        return "Reportable"
                    new = set()
                    for a in nodes:
                        new |= ref_fire(g, rule, a)
                    new = {t for t in new if t not in g}
                    if not new:
                        break
                    changed = True
                    for t in new:
                        g.add(t)
                    if not (iterate and rule["kind"][0] == "triple"):
                        break
            if not (changed and iterate):
                break
    return g


# ------------------------------------------------------------------ encoding for the model
def nexpr_coq(I, e):
    if e[0] == "this":
        return "NThis"
    if e[0] == "const":
        return "NConst (%s)" % I.term(e[1])
    return "NPath (%s)" % enc.path_to_coq(I, e[1])


def pterm_coq(I, t):
    return "PThis" if t[0] == "this" else ("PV %d" % t[1] if t[0] == "var" else "PT (%s)" % I.term(t[1]))


def tpats_coq(I, l):
    return "[%s]" % "; ".join("(%s, %s, %s)" % tuple(pterm_coq(I, x) for x in tp) for tp in l)


def srules_coq(I, case):
    out = []
    use = case["opts"].get("use_shapes")
    for s in case["shapes"]:
        if s["id"] not in case["rules"] or (use and str(s["id"]) not in use):
            continue
        rs = []
        for k, r in enumerate(case["rules"][s["id"]]):
            kind = ("RTriple (%s) (%s) (%s)" % tuple(nexpr_coq(I, e) for e in r["kind"][1:])) if r["kind"][0] == "triple" else \
                   "RConstruct %s %s" % (tpats_coq(I, r["kind"][1]), tpats_coq(I, r["kind"][2]))
            rs.append("{| r_id := %d%%N; r_order := %d; r_deact := %s; r_conds := %s; r_kind := %s |}" % (k, int(r["order"] * 10), enc.coq_bool(r["deact"]), I.terms(r["conds"]), kind))
        out.append("{| sr_shape := %s; sr_order := %d; sr_rules := [%s] |}" % (I.term(s["id"]), int(s["order"] * 10), "; ".join(rs)))
    return "[%s]" % "; ".join(out)


def run_real(case):
    import pyshacl
    from pyshacl.errors import ReportableRuntimeError
    try:
        out = pyshacl.shacl_rules(case["data"], shacl_graph=case["sg"], **case["opts"])
    except ReportableRuntimeError as e:
        return "Reportable" if type(e) is ReportableRuntimeError else type(e).__name__
    except Exception as e:
        return "RAW:" + type(e).__name__ + ": " + str(e)[:200]
    g = rdflib.Graph()
    for s, p, o, _ in out.quads((None, None, None, None)) if isinstance(out, (rdflib.Dataset, rdflib.ConjunctiveGraph)) else ((a, b, c, None) for a, b, c in out):
        g.add((s, p, o))
    return g


def main(tier, seed, replay=None):
    warnings.simplefilter("ignore")
    from pyshacl.shapes_graph import ShapesGraph
    rep = F.Report(PROP, tier, seed)
    ob = F.coq_build(["Props/C15.v"], extra=list(EC.EXTRA_VO) + ["Rules/RulesCheck.v"])
    rng = F.rng_for(seed, PROP)
    n = 2500 if tier == "thorough" else 220
    cases = [gen_case(rng) for _ in range(n)]
    bodies, index, viol = [], [], []
    stats = {"added_triples": 0, "cases_with_additions": 0, "iteration_limit": 0, "needs_iteration": 0, "advanced_validate_checked": 0}
    snapshot_bad = []
    for i, c in enumerate(cases):
        before = frozenset(c["data"])
        real = run_real(c)
        if frozenset(c["data"]) != before:
            snapshot_bad.append(i)
        ref = reference(c)
        c["real"], c["ref"] = real, ref
        same = (isinstance(real, rdflib.Graph) and isinstance(ref, rdflib.Graph) and set(real) == set(ref)) or (isinstance(real, str) and real == ref)
        if not same:
            viol.append((i, "shacl_rules() differs from the reference implementation of the documented procedure"))
        if isinstance(real, rdflib.Graph):
            added = len(set(real) - before)
            stats["added_triples"] += added
            stats["cases_with_additions"] += 1 if added else 0
            if c["opts"]["iterate_rules"]:
                c2 = dict(c, opts=dict(c["opts"], iterate_rules=False))
                once = reference(c2)
                if isinstance(once, rdflib.Graph) and set(once) != set(real):
                    stats["needs_iteration"] += 1
        else:
            stats["iteration_limit"] += 1 if real == "Reportable" else 0
        # the model
        I = enc.Interner()
        if isinstance(real, str) and real.startswith("RAW:"):
            viol.append((i, "undocumented exception escaped shacl_rules(): " + real))
            continue
        obs = "Ok (%s)" % I.graph(real) if isinstance(real, rdflib.Graph) else "Err %s" % real
        sgx = ShapesGraph(c["sg"]).graph
        both = c["opts"].get("use_shapes") and c["opts"].get("focus_nodes")
        explicit = "(Some %s)" % I.terms([URIRef(x) for x in c["opts"]["focus_nodes"]]) if both else "None"
        mopts = {} if both else {"focus_nodes": c["opts"].get("focus_nodes")}
        bodies.append("check_rules empty_world (%s) (%s) (%s) %s %s (%s) (%s) (%s)" % (
            S.opts_to_coq(I, mopts), I.graph(S.class_triples(sgx)), S.env_to_coq(I, c["shapes"]), explicit,
            enc.coq_bool(c["opts"]["iterate_rules"]), I.graph(c["data"]), srules_coq(I, c), obs))
        index.append(i)
    failed, errors = F.coq_eval("c15", PREAMBLE, bodies, shard=60) if ob.ok else ([], ["coq build broken"])

    # advanced-mode validation runs the rules first: the report equals plain validation of the reference-expanded graph
    import pyshacl
    meta_bad = []
    for i, c in enumerate(cases[: (400 if tier == "thorough" else 60)]):
        if not isinstance(c["ref"], rdflib.Graph) or c["opts"].get("use_shapes") or c["opts"].get("focus_nodes"):
            continue
        o_adv = S.run_validate(c["data"], c["sg"], advanced=True, iterate_rules=c["opts"]["iterate_rules"])
        sg_plain = rdflib.Graph()
        for tr in c["sg"]:
            sg_plain.add(tr)
        o_ref = S.run_validate(c["ref"], sg_plain)
        stats["advanced_validate_checked"] += 1
        if o_adv[0] != o_ref[0] or (o_adv[0] == "ok" and (o_adv[1] != o_ref[1] or EC.keys(o_adv) != EC.keys(o_ref))):
            meta_bad.append((i, "validate(advanced=True) differs from plain validation of the rule-expanded graph", o_adv, o_ref))

    def describe(i):
        c = cases[i]
        show = lambda g: sorted(" ".join(x.n3() for x in t) for t in g) if isinstance(g, rdflib.Graph) else g
        return {"shapes_ttl": c["sg"].serialize(format="turtle"), "data_nt": show(c["data"]), "options": c["opts"],
                "shacl_rules_added": show(rdflib.Graph() if not isinstance(c["real"], rdflib.Graph) else [t for t in c["real"] if t not in c["data"]]) if isinstance(c["real"], rdflib.Graph) else c["real"],
                "reference_added": sorted(" ".join(x.n3() for x in t) for t in c["ref"] if t not in c["data"]) if isinstance(c["ref"], rdflib.Graph) else c["ref"]}

    for i, what in viol[:8]:
        d = describe(i)
        d["what"] = what
        rep.violation(d)
    for i in snapshot_bad[:3]:
        d = describe(i)
        d["what"] = "shacl_rules() changed the caller's data graph"
        rep.violation(d)
    for k in failed[:8]:
        d = describe(index[k])
        d["what"] = "shacl_rules() differs from the model of pyshacl.rules (Rules/Rules.v)"
        d["model"] = F.coq_show("c15", PREAMBLE, bodies[k].replace("check_rules", "(fun W o sg E ex it g l _ => rules_model W o sg E ex it g l)", 1))[:3000]
        rep.violation(d)
    for i, what, o_adv, o_ref in meta_bad[:5]:
        d = describe(i)
        d["what"] = what
        d["advanced"] = S.describe_case(cases[i]["sg"], cases[i]["data"], {}, o_adv)["observed"]
        d["plain_on_expanded"] = S.describe_case(cases[i]["sg"], cases[i]["data"], {}, o_ref)["observed"]
        rep.violation(d)
    if (not ob.ok or errors) and not rep.violations:
        rep.violation({"obligation": ob.broken or errors, "detail": ob.log[-1500:]}, no_input=True)

    kinds = {}
    for c in cases:
        for rs in c["rules"].values():
            for r in rs:
                k = r["kind"][0] + ("+cond" if r["conds"] else "") + ("+deact" if r["deact"] else "")
                kinds[k] = kinds.get(k, 0) + 1
    optk = {}
    for c in cases:
        k = ",".join(sorted(k for k, v in c["opts"].items() if v))
        optk[k or "default"] = optk.get(k or "default", 0) + 1
    cov = F.proof_coverage(ob, [
        "the model's parameters foci_of / conf are instantiated, for the correspondence run, with the C02 focus-node model and the C04 evaluator (Rules/RulesCheck.v)",
        "CONSTRUCT rules are modelled for the template family 'basic graph pattern -> triple templates' (Rules.construct); rdflib evaluates the real queries",
        "harness/props/c15.py reference(): an independent implementation of the documented procedure (targets, conditions via plain validation of a re-targeted shapes graph, CONSTRUCT through rdflib)",
    ])
    cov.update({
        "evaluations": 2 * len(cases) + stats["advanced_validate_checked"],
        "distinct_nontrivial": stats["cases_with_additions"],
        "rule": "case = 1-3 rule-bearing shapes (distinct sh:order) x 1-3 rules each (distinct sh:order; TripleRule over sh:this/constants/path expressions, SPARQLRule from a CONSTRUCT family incl. a transitive-closure rule; 0-2 sh:condition shapes given singly or as a list; sh:deactivated) x typed data x iterate_rules x focus_nodes/use_shapes; "
                "shacl_rules() output compared (a) with the reference implementation and (b) with the Coq model; caller's graph snapshot; validate(advanced=True) compared with plain validation of the reference-expanded graph",
        "distribution": dict(stats, rule_kinds=kinds, options=optk, model_disagreements=len(failed), reference_disagreements=len(viol), advanced_disagreements=len(meta_bad)),
        "samples": [describe(0)],
        "exhaustive": False,
    })
    rep.coverage = cov
    rep.assumptions = ["ties in sh:order are not generated (unspecified)", "iteration limits (100 rounds) are reached only as ReportableRuntimeError in both implementations",
                       "node expressions beyond sh:this / constant / sh:path (function calls, union, filterShape) belong to C17"]
    return rep.finish()
