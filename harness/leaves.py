"""C01: generator of shapes over all core leaf components, and the `world` (literal values, string
lengths, regex matches, language subtags) the Gallina model takes as data."""
import datetime
import re
from decimal import Decimal

import rdflib
from rdflib import BNode, Literal, URIRef
from rdflib.namespace import RDF, RDFS, XSD

from . import enc, shapes as S
from .enc import EX, SH

L = lambda lex, dt=None, lang=None: Literal(lex, datatype=dt, lang=lang, normalize=False)

LITERALS = [
    L("1", XSD.integer), L("5", XSD.integer), L("05", XSD.integer), L("-3", XSD.integer), L("7", XSD.long),
    L("1.5", XSD.decimal), L("5.0", XSD.decimal), L("4.5E0", XSD.double), L("5.0e0", XSD.double), L("INF", XSD.double),
    L("1.25", XSD.float),
    L("a"), L("abc"), L("b", XSD.string), L("abd", XSD.string), L(""), L("5"),
    L("a", lang="en"), L("b", lang="en-US"), L("c", lang="de-DE-1996"), L("a", lang="fr"), L("d", lang="EN"),
    L("true", XSD.boolean), L("false", XSD.boolean),
    L("2020-01-01T00:00:00Z", XSD.dateTime), L("2020-06-01T12:00:00+02:00", XSD.dateTime), L("2020-03-01T00:00:00", XSD.dateTime),
    L("2021-01-01T00:00:00", XSD.dateTime),
    L("2020-01-01", XSD.date), L("2021-05-05", XSD.date),
    L("abc", XSD.integer), L("2020-13-45", XSD.date), L("maybe", XSD.boolean),
    L("x", EX.customDatatype), L("http://ex.org/u", XSD.anyURI),
]
RANGE_BOUNDS = [
    L("3", XSD.integer), L("5", XSD.integer), L("4.5", XSD.decimal), L("5.0E0", XSD.double),
    L("b"), L("abc", XSD.string), L("true", XSD.boolean),
    L("2020-02-01T00:00:00Z", XSD.dateTime), L("2020-02-01T00:00:00", XSD.dateTime), L("2020-06-01", XSD.date),
    L("abc", XSD.integer),
]
DATATYPES = [XSD.integer, XSD.decimal, XSD.double, XSD.string, RDF.langString, XSD.boolean, XSD.dateTime, XSD.date,
             XSD.long, XSD.anyURI, EX.customDatatype, XSD.float]
PATTERNS = [("a", None), ("^a", None), ("b$", "i"), ("A", "i"), ("^.$", None), ("[0-9]+", None), ("e", "m"), ("ex\\.org", None)]
LANG_RANGES = ["en", "en-US", "de", "de-DE", "fr", "*", "EN"]
PREDS = S.PREDS


# ------------------------------------------------------------------ world
def value_to_string(v):
    """StringBasedConstraintBase.value_node_to_string, restated"""
    if isinstance(v, Literal):
        if v.value is not None and v.datatype in (None, RDF.langString, XSD.string):
            return str(v.value)
        return str(v)
    return str(v)


PYTYPES = {
    XSD.string: (str, bytes), RDF.langString: (str, bytes), XSD.integer: int, XSD.float: float, XSD.decimal: Decimal,
    XSD.boolean: bool, XSD.date: datetime.date, XSD.time: datetime.time, XSD.dateTime: datetime.datetime,
}


def q(n, d=1):
    return "(Qmake (%d)%%Z (%d)%%positive)" % (n, d)


class World:
    def __init__(self, I):
        self.I = I
        self.kinds, self.dinfo, self.lens, self.langs, self.regex = {}, {}, {}, {}, []
        self.classes = {("", None): 0}
        self.subtags = {"*": 1}
        self.pids = {}

    def subtag(self, s):
        if s not in self.subtags:
            self.subtags[s] = len(self.subtags) + 1
        return self.subtags[s]

    def lang_list(self, tag):
        return "[" + "; ".join("%d" % self.subtag(x) for x in tag.lower().split("-")) + "]"

    def kind(self, t):
        if isinstance(t, URIRef):
            return "KStr 0 [%s]" % "; ".join(str(ord(c)) for c in str(t))
        if not isinstance(t, Literal):
            return "KNone"
        if getattr(t, "ill_typed", None) is True or t.value is None:
            return "KNone"
        v = t.value
        if isinstance(v, bool):
            return "KBool %s" % enc.coq_bool(v)
        if isinstance(v, int):
            return "KNum %s" % q(v)
        if isinstance(v, Decimal):
            if not v.is_finite():
                return "KNone"
            n, d = v.as_integer_ratio()
            return "KNum %s" % q(n, d)
        if isinstance(v, float):
            if v != v:
                return "KSpecial SNaN"
            if v in (float("inf"), float("-inf")):
                return "KSpecial %s" % ("SPInf" if v > 0 else "SNInf")
            n, d = v.as_integer_ratio()
            return "KNum %s" % q(n, d)
        if isinstance(v, str):
            dt = t.datatype if (t.datatype is not None and t.datatype != XSD.string) else None
            key = ((t.language or "").lower(), dt)
            if key not in self.classes:
                self.classes[key] = len(self.classes)
            return "KStr %d [%s]" % (self.classes[key], "; ".join(str(ord(c)) for c in v))
        if isinstance(v, datetime.datetime):
            if v.tzinfo is not None:
                d = v - datetime.datetime(1970, 1, 1, tzinfo=datetime.timezone.utc)
                aware = True
            else:
                d = v - datetime.datetime(1970, 1, 1)
                aware = False
            micros = (d.days * 86400 + d.seconds) * 1000000 + d.microseconds
            return "KDateTime %s (%d)%%Z" % (enc.coq_bool(aware), micros)
        if isinstance(v, datetime.date):
            return "KDate (%d)%%Z" % v.toordinal()
        return "KNone"

    def add_term(self, t):
        k = self.I.term(t)
        if k in self.kinds:
            return
        self.kinds[k] = self.kind(t)
        if isinstance(t, Literal):
            dt = t.datatype
            rule = dt if dt is not None else (RDF.langString if t.language else XSD.string)
            exp = PYTYPES.get(rule)
            pyok = True if exp is None else isinstance(t.value, exp)
            self.dinfo[k] = "{| d_datatype := %s; d_has_lang := %s; d_ill_typed := %s; d_pytype_ok := %s |}" % (
                enc.coq_opt(self.I.term(dt)) if dt is not None else "None",
                enc.coq_bool(bool(t.language)),
                enc.coq_bool(getattr(t, "ill_typed", None) is True),
                enc.coq_bool(pyok),
            )
            if t.language:
                self.langs[k] = self.lang_list(t.language)
        if not isinstance(t, BNode):
            self.lens[k] = len(value_to_string(t))

    def pattern_id(self, pat, flags):
        key = (pat, flags)
        if key not in self.pids:
            self.pids[key] = len(self.pids) + 1
        return self.pids[key]

    def add_regex(self, pat, flags, terms):
        pid = self.pattern_id(pat, flags)
        fl = 0
        if flags:
            if "i" in flags.lower():
                fl |= re.I
            if "m" in flags.lower():
                fl |= re.M
        rx = re.compile(pat, fl)
        for t in terms:
            if isinstance(t, BNode):
                continue
            m = rx.search(value_to_string(t)) is not None
            self.regex.append("(%d, %s, %s)" % (pid, self.I.term(t), enc.coq_bool(m)))

    def to_coq(self):
        return "{| w_kind := [%s]; w_dinfo := [%s]; w_len := [%s]; w_regex := [%s]; w_lang := [%s] |}" % (
            "; ".join("(%s, %s)" % kv for kv in self.kinds.items()),
            "; ".join("(%s, %s)" % kv for kv in self.dinfo.items()),
            "; ".join("(%s, (%d)%%Z)" % kv for kv in self.lens.items()),
            "; ".join(self.regex),
            "; ".join("(%s, %s)" % kv for kv in self.langs.items()),
        )


# ------------------------------------------------------------------ generator
def gen_data(rng):
    nodes = [EX["n%d" % i] for i in range(rng.randint(2, 4))] + [BNode("b0")]
    g = rdflib.Graph()
    for _ in range(rng.randint(3, 14)):
        s = rng.choice(nodes)
        p = URIRef(rng.choice(PREDS + [str(RDF.type)]))
        r = rng.random()
        if p == RDF.type:
            o = rng.choice(S.CLASSES + [RDFS.Resource])
        elif r < 0.7:
            o = rng.choice(LITERALS)
        else:
            o = rng.choice(nodes)
        g.add((s, p, o))
    if rng.random() < 0.3:
        # an IRI and a plain literal spelling that IRI as values of one predicate (of one focus node or of two): different terms
        iris = [n for n in nodes if isinstance(n, URIRef)]
        n_, p_, s_ = rng.choice(iris), URIRef(rng.choice(PREDS)), rng.choice(nodes)
        g.add((s_, p_, n_))
        g.add((rng.choice([s_, s_] + nodes), p_, rdflib.Literal(str(n_))))
        if rng.random() < 0.5:
            g.add((n_, RDF.type, rng.choice(S.CLASSES)))
    for _ in range(rng.randint(0, 2)):
        g.add((rng.choice(S.CLASSES), RDFS.subClassOf, rng.choice(S.CLASSES)))
    if rng.random() < 0.3:
        # a class with several direct superclasses, each with ancestors of its own (and sometimes a way back)
        x = rng.choice(S.CLASSES)
        ups = rng.sample(UPPER, rng.randint(2, 3))
        for u in ups:
            g.add((x, RDFS.subClassOf, u))
            g.add((u, RDFS.subClassOf, TOPS[UPPER.index(u)]))
        if rng.random() < 0.3:
            g.add((TOPS[UPPER.index(ups[0])], RDFS.subClassOf, x))
    return g, nodes


UPPER = [EX.K0, EX.K1, EX.K2]
TOPS = [EX.T0, EX.T1, EX.T2]


def gen_leaf(rng, is_prop, nodes):
    kinds = ["class", "datatype", "nodekind", "minexcl", "minincl", "maxexcl", "maxincl", "minlength", "maxlength",
             "pattern", "languagein", "hasvalue", "in"]
    if is_prop:
        kinds += ["mincount", "maxcount", "uniquelang", "equals", "disjoint", "lessthan", "lessthaneq"]
    k = rng.choice(kinds)
    pool = [n for n in nodes if not isinstance(n, BNode)] + LITERALS
    if k == "class":
        return ("class", rng.sample(S.CLASSES + (UPPER + TOPS if rng.random() < 0.5 else []) if rng.random() < 0.6 else TOPS, rng.randint(1, 2)))
    if k == "datatype":
        return ("datatype", rng.choice(DATATYPES))
    if k == "nodekind":
        return ("nodekind", rng.choice(sorted(S.NODEKINDS)))
    if k in ("minexcl", "minincl", "maxexcl", "maxincl"):
        return (k, rng.sample(RANGE_BOUNDS, 1 if rng.random() < 0.8 else 2))
    if k in ("minlength", "maxlength"):
        return (k, rng.randint(1, 4))
    if k == "pattern":
        return ("pattern", [rng.choice(PATTERNS)[0] for _ in range(1 if rng.random() < 0.8 else 2)], rng.choice([None, None, "i", "m"]))
    if k == "languagein":
        return ("languagein", rng.sample(LANG_RANGES, rng.randint(1, 2)))
    if k == "mincount":
        return ("mincount", rng.randint(0, 3))
    if k == "maxcount":
        return ("maxcount", rng.randint(0, 2))
    if k == "uniquelang":
        return ("uniquelang", rng.random() < 0.85)
    if k in ("equals", "disjoint", "lessthan", "lessthaneq"):
        return (k, [URIRef(x) for x in rng.sample(PREDS, 1 if rng.random() < 0.8 else 2)])
    if k == "hasvalue":
        return ("hasvalue", rng.sample(pool, rng.randint(1, 2)))
    return ("in", rng.sample(pool, rng.randint(0, 5)))


LANG_LITS = [l for l in LITERALS if l.language]
THEMES = {
    "languagein": LANG_LITS + [L("a"), L("5", XSD.integer)],
    "uniquelang": LANG_LITS + [L("x", lang="en"), L("y", lang="en-us"), L("z", lang="fr")],
    "pattern": [l for l in LITERALS if l.value is not None and isinstance(l.value, str)] + [L("1", XSD.integer)],
}


def gen_case(rng):
    data, nodes = gen_data(rng)
    iri_nodes = [n for n in nodes if isinstance(n, URIRef)]
    shapes = []
    for i in range(rng.randint(1, 3)):
        is_prop = rng.random() < 0.6
        path = ("pred", rng.choice(PREDS)) if is_prop and rng.random() < 0.8 else (enc.gen_path(rng, PREDS, 1) if is_prop else None)
        s = S.new_shape(EX["L%d" % i], path)
        s["sev"] = rng.choice([None, None, SH.Warning])
        t = s["targets"]
        r = rng.random()
        if r < 0.5:
            t["nodes"] = rng.sample(iri_nodes, rng.randint(1, 2))
            if not is_prop and rng.random() < 0.5:
                t["nodes"].append(rng.choice(LITERALS))
        elif r < 0.8:
            t["subjects_of"] = [URIRef(rng.choice(PREDS))]
        else:
            t["objects_of"] = [URIRef(rng.choice(PREDS))]
        used = set()
        for _ in range(rng.randint(1, 3)):
            c = gen_leaf(rng, is_prop, nodes)
            if c[0] in used:
                continue
            used.add(c[0])
            s["comps"].append(c)
            # make the component see value nodes of the kinds that matter to it
            pool = THEMES.get(c[0])
            if c[0] in ("minexcl", "minincl", "maxexcl", "maxincl") and rng.random() < 0.6:
                pool = [l for l in LITERALS if type(l.value) is type(c[1][0].value)] or None
            if pool and path is not None and path[0] == "pred":
                for _ in range(rng.randint(1, 3)):
                    data.add((rng.choice(iri_nodes), URIRef(path[1]), rng.choice(pool)))
            elif pool and path is None and rng.random() < 0.7:
                t["nodes"] = list(t["nodes"]) + rng.sample(pool, min(2, len(pool)))
        shapes.append(s)
    # a parameter with several values is a conjunction: each value is a constraint of its own, and the verdict of the component is
    # 'conforms' only if every one of them is satisfied - whichever is evaluated last
    if rng.random() < 0.3:
        ca, cb = rng.sample(S.CLASSES, 2)
        xs = rng.sample(iri_nodes, min(2, len(iri_nodes)))
        for x_, c_ in zip(xs, (ca, cb)):
            for t_ in list(data.triples((x_, RDF.type, None))):
                data.remove(t_)
            data.add((x_, RDF.type, c_))
        for k_, x_ in enumerate(xs):
            s = S.new_shape(EX["MC%d" % k_], None)
            s["targets"]["nodes"] = [x_]
            s["comps"].append(rng.choice([("class", [ca, cb]), ("class", [ca, cb]), ("datatype_none", None)]) if False else ("class", [ca, cb]))
            shapes.append(s)
    # closed shapes with property shapes
    if rng.random() < 0.35:
        # on a node shape the closed node is the focus node; on a property shape it is each value node
        s = S.new_shape(EX.Closed, None if rng.random() < 0.5 else ("pred", rng.choice(PREDS)))
        s["targets"]["nodes"] = rng.sample(iri_nodes, min(len(iri_nodes), rng.randint(1, 3)))
        if s["path"] is not None:
            for _ in range(rng.randint(1, 2)):
                data.add((rng.choice(s["targets"]["nodes"]), URIRef(s["path"][1]), rng.choice(iri_nodes)))
            if rng.random() < 0.5:
                # one value node shared by all the focus nodes: it is closed once per focus node that reaches it
                shared = rng.choice(iri_nodes)
                for t_ in s["targets"]["nodes"]:
                    data.add((t_, URIRef(s["path"][1]), shared))
        props = []
        for j in range(rng.randint(0, 2)):
            ps = S.new_shape(BNode("cp%d" % j), ("pred", rng.choice(PREDS)) if rng.random() < 0.8 else ("inv", ("pred", rng.choice(PREDS))))
            ps["comps"].append(("mincount", 0))
            props.append(ps)
        if props:
            s["comps"].append(("property", [p["id"] for p in props]))
        s["comps"].append(("closed", rng.random() < 0.9, [URIRef(x) for x in rng.sample(PREDS + [str(RDF.type)], rng.randint(0, 2))]))
        shapes.append(s)
        shapes.extend(props)
    return {"shapes": shapes, "data": data, "nodes": nodes}


# ------------------------------------------------------------------ rendering of the extra leaves
def leaf_to_rdf(g, n, c):
    k = c[0]
    if k == "datatype":
        g.add((n, SH.datatype, c[1]))
    elif k in ("minexcl", "minincl", "maxexcl", "maxincl"):
        pred = {"minexcl": SH.minExclusive, "minincl": SH.minInclusive, "maxexcl": SH.maxExclusive, "maxincl": SH.maxInclusive}[k]
        for b in c[1]:
            g.add((n, pred, b))
    elif k == "minlength":
        g.add((n, SH.minLength, Literal(c[1])))
    elif k == "maxlength":
        g.add((n, SH.maxLength, Literal(c[1])))
    elif k == "pattern":
        for p in c[1]:
            g.add((n, SH.pattern, Literal(p)))
        if c[2]:
            g.add((n, SH.flags, Literal(c[2])))
    elif k == "languagein":
        g.add((n, SH.languageIn, enc.rdf_list(g, [Literal(x) for x in c[1]])))
    elif k == "uniquelang":
        g.add((n, SH.uniqueLang, Literal(c[1])))
    elif k in ("equals", "disjoint", "lessthan", "lessthaneq"):
        pred = {"equals": SH.equals, "disjoint": SH.disjoint, "lessthan": SH.lessThan, "lessthaneq": SH.lessThanOrEquals}[k]
        for p in c[1]:
            g.add((n, pred, p))
    elif k == "closed":
        g.add((n, SH.closed, Literal(c[1])))
        if c[2] or True:
            g.add((n, SH.ignoredProperties, enc.rdf_list(g, c[2])))
    else:
        return False
    return True


def leaf_to_coq(I, W, c, value_terms):
    k = c[0]
    if k == "datatype":
        return "CLeaf (LDatatype (%s))" % I.term(c[1])
    if k in ("minexcl", "minincl", "maxexcl", "maxincl"):
        for b in c[1]:
            W.add_term(b)
        return "CLeaf (%s %s)" % ({"minexcl": "LMinExcl", "minincl": "LMinIncl", "maxexcl": "LMaxExcl", "maxincl": "LMaxIncl"}[k], I.terms(c[1]))
    if k == "minlength":
        return "CLeaf (LMinLength (%d)%%Z)" % c[1]
    if k == "maxlength":
        return "CLeaf (LMaxLength (%d)%%Z)" % c[1]
    if k == "pattern":
        for p in c[1]:
            W.add_regex(p, c[2], value_terms)
        return "CLeaf (LPattern [%s])" % "; ".join("%d" % W.pattern_id(p, c[2]) for p in sorted(set(c[1]), key=c[1].index))
    if k == "languagein":
        return "CLeaf (LLanguageIn [%s])" % "; ".join(W.lang_list(x) for x in c[1])
    if k == "uniquelang":
        return "CLeaf (LUniqueLang %s)" % enc.coq_bool(c[1])
    if k in ("equals", "disjoint", "lessthan", "lessthaneq"):
        return "CLeaf (%s %s)" % ({"equals": "LEquals", "disjoint": "LDisjoint", "lessthan": "LLessThan", "lessthaneq": "LLessThanEq"}[k], I.terms(c[1]))
    if k == "closed":
        return "CClosed %s %s" % (enc.coq_bool(c[1]), I.terms(c[2]))
    return None
