"""C09 worker: one validation in its own process (its own PYTHONHASHSEED).
  c09_worker.py <case.pkl> <out.pkl>
case.pkl: dict(data=[triples in insertion order], shapes=[triples in insertion order], prefixes=[(p, ns)...], options={...})"""
import pickle
import re
import sys
import warnings

warnings.simplefilter("ignore")
import rdflib
from rdflib import BNode, Literal, URIRef
from rdflib.namespace import RDF

SH = rdflib.Namespace("http://www.w3.org/ns/shacl#")


def term_key(t, g=None, depth=0):
    """blank nodes are named by what is said about them (labels are not comparable between runs)"""
    if isinstance(t, BNode):
        if g is None or depth > 2:
            return "_:b"
        return "_:b{" + ",".join(sorted("%s %s" % (p.n3(), term_key(o, g, depth + 1)) for p, o in g.predicate_objects(t))) + "}"
    return t.n3()


def result_key(rg, r, dg, sg, depth=0):
    one = lambda p: [o for o in rg.objects(r, p)]
    f, v, path, comp, src, sev = (one(SH.focusNode), one(SH.value), one(SH.resultPath), one(SH.sourceConstraintComponent), one(SH.sourceShape), one(SH.resultSeverity))
    k = lambda xs, g: sorted(term_key(x, g) for x in xs)
    details = sorted(repr(result_key(rg, d, dg, sg, depth + 1)) for d in rg.objects(r, SH.detail)) if depth < 20 else []
    return (k(f, dg), k(v, dg), k(path, rg), k(comp, None), k(src, sg), k(sev, None), details)


def main():
    case = pickle.load(open(sys.argv[1], "rb"))
    import pyshacl
    dg, sg = rdflib.Graph(), rdflib.Graph()
    for t in case["data"]:
        dg.add(t)
    for t in case["shapes"]:
        sg.add(t)
    dpfx, spfx = case["prefixes"] if isinstance(case["prefixes"], tuple) else (case["prefixes"], case["prefixes"])
    for p, ns in dpfx:
        dg.bind(p, ns, override=True, replace=True)
    for p, ns in spfx:
        sg.bind(p, ns, override=True, replace=True)
    try:
        if case.get("api") == "rules":
            out = pyshacl.shacl_rules(dg, shacl_graph=sg, **case["options"])
            res = ("rules", sorted(" ".join(term_key(x, out) for x in t) for t in out))
        else:
            conforms, rg, text = pyshacl.validate(dg, shacl_graph=sg, **case["options"])
            if isinstance(rg, rdflib.Graph):
                tops = list(rg.objects(None, SH.result))
                res = ("ok", bool(conforms), sorted(repr(result_key(rg, r, dg, sg)) for r in tops),
                       int(re.search(r"Results \((\d+)\)", text).group(1)) if "Results (" in text else 0)
            else:
                # which of several failing constraints is met first follows the (unordered) iteration over shapes:
                # the property fixes verdict and results, not the wording of a failure
                res = ("failure", type(rg).__name__)
    except Exception as e:
        res = ("exc", type(e).__name__)
    pickle.dump(res, open(sys.argv[2], "wb"))


if __name__ == "__main__":
    main()
