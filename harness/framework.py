"""Shared machinery of the /verif checks: environment, Coq build and proof
gates, evaluation of the Gallina models on generated cases (vm_compute inside
coqc), evidence and verdict protocol."""
import fcntl
import hashlib
import json
import os
import random
import re
import subprocess
import sys
import time
from concurrent.futures import ThreadPoolExecutor

VERIF = os.path.dirname(os.path.dirname(os.path.abspath(__file__)))
REPO = os.environ.get("VERIF_REPO", "/repo")
COQ = os.path.join(VERIF, "coq")
BUILD = os.path.join(VERIF, "build")
CASES = os.path.join(COQ, "Cases")

for d in (BUILD, CASES, os.path.join(VERIF, "evidence"), os.path.join(VERIF, "replays")):
    os.makedirs(d, exist_ok=True)

# the implementation under test is always /repo's working tree
sys.path.insert(0, REPO)
os.environ["PYTHONPATH"] = REPO
os.environ.setdefault("PIP_NO_INDEX", "1")

FORBIDDEN = re.compile(
    r"\b(Admitted|admit|Axiom|Axioms|Parameter|Parameters|Conjecture|Conjectures|Abort All|bypass_check|"
    r"Unset Guard Checking|Unset Positivity Checking|Unset Universe Checking|Admit Obligations|"
    r"type-in-type|impredicative-set)\b"
)
# axioms of the standard library that DESIGN.md names as acceptable (none needed so far)
ALLOWED_AXIOMS = set()


def seed_from_env():
    try:
        return int(os.environ.get("VERIF_SEED", "0"))
    except ValueError:
        return 0


def tier_from_args(argv):
    tier = os.environ.get("VERIF_TIER") or "quick"
    if "--tier" in argv:
        tier = argv[argv.index("--tier") + 1]
    return tier if tier in ("quick", "thorough") else "quick"


class Obligations:
    """Result of building the Coq development and checking the proof gates."""

    def __init__(self):
        self.theorems = []  # (name, assumptions-text)
        self.broken = []  # descriptions of broken obligations
        self.log = ""

    @property
    def ok(self):
        return not self.broken


def _strip_comments(text):
    out, depth, i = [], 0, 0
    while i < len(text):
        if text.startswith("(*", i):
            depth += 1
            i += 2
        elif text.startswith("*)", i) and depth:
            depth -= 1
            i += 2
        else:
            if depth == 0:
                out.append(text[i])
            i += 1
    return "".join(out)


def grep_gate():
    bad = []
    for root, _, files in os.walk(COQ):
        if root.startswith(CASES):
            continue
        for f in files:
            if f.endswith(".v"):
                p = os.path.join(root, f)
                txt = _strip_comments(open(p).read())
                for m in FORBIDDEN.finditer(txt):
                    bad.append("%s: %s" % (os.path.relpath(p, COQ), m.group(0)))
                stack = []
                for line in txt.splitlines():
                    ms = re.match(r"\s*(Section|Module(?:\s+Type)?)\s+(\w+)", line)
                    if ms:
                        stack.append((ms.group(1).split()[0], ms.group(2)))
                        continue
                    me = re.match(r"\s*End\s+(\w+)\s*\.", line)
                    if me and stack and stack[-1][1] == me.group(1):
                        stack.pop()
                        continue
                    mv = re.match(r"\s*(Variables?|Hypothes[ie]s|Context)\b", line)
                    if mv and not any(k == "Section" for k, _ in stack):
                        bad.append("%s: %s outside a section" % (os.path.relpath(p, COQ), mv.group(1)))
    return bad


def run_translators(names):
    """Regenerate coq/Gen/*.v from /repo's working tree (Tie A). Returns list of failures."""
    failures = []
    for name in names:
        script = os.path.join(VERIF, "translator", name + ".py")
        r = subprocess.run([sys.executable, script], capture_output=True, text=True, cwd=VERIF)
        if r.returncode != 0:
            failures.append("translate:%s: %s" % (name, (r.stdout + r.stderr).strip()[-800:]))
    return failures


def coq_build(prop_files, translators=(), timeout=1500, extra=()):
    """Full .vo build of the requested Props files (and everything they depend on),
    with the Print Assumptions output of the property files checked."""
    ob = Obligations()
    os.makedirs(BUILD, exist_ok=True)
    lock = open(os.path.join(BUILD, ".lock"), "w")
    fcntl.flock(lock, fcntl.LOCK_EX)
    try:
        for f in run_translators(translators):
            ob.broken.append(f)
        bad = grep_gate()
        for b in bad:
            ob.broken.append("gate:" + b)
        if not os.path.exists(os.path.join(COQ, "Makefile")) or os.path.getmtime(
            os.path.join(COQ, "Makefile")
        ) < os.path.getmtime(os.path.join(COQ, "_CoqProject")):
            subprocess.run(["coq_makefile", "-f", "_CoqProject", "-o", "Makefile"], cwd=COQ, capture_output=True)
        deps = [p[:-2] + ".vo" for p in list(prop_files) + list(extra)]
        # property files are always recompiled so that Print Assumptions is re-run
        for p in prop_files:
            for ext in (".vo", ".glob", ".vok", ".vos"):
                try:
                    os.remove(os.path.join(COQ, p[:-2] + ext))
                except OSError:
                    pass
        try:
            r = subprocess.run(
                ["timeout", str(timeout), "make", "-j16"] + deps, cwd=COQ, capture_output=True, text=True
            )
            ob.log = r.stdout + r.stderr
            if r.returncode != 0:
                m = re.search(r'File "\./([^"]+)", line (\d+)[^\n]*\n((?:.|\n){0,600})', ob.log)
                where = "%s:%s %s" % (m.group(1), m.group(2), m.group(3).strip()[:400]) if m else ob.log[-600:]
                ob.broken.append("coq-build: " + where)
        except Exception as e:  # pragma: no cover
            ob.broken.append("coq-build: %r" % (e,))
        # pair theorem names with the Print Assumptions outputs, per property file
        for p in prop_files:
            src = _strip_comments(open(os.path.join(COQ, p)).read())
            names = re.findall(r"Print Assumptions (\w+)\s*\.", src)
            thms = re.findall(r"^\s*(?:Theorem|Corollary)\s+(\w+)", src, re.M)
            for t in thms:
                if t not in names:
                    ob.broken.append("gate:%s: theorem %s has no Print Assumptions" % (p, t))
            if any(x.startswith("coq-build") for x in ob.broken):
                continue
            rc, out, err = _coqc_file(p, 600)
            if rc != 0:
                ob.broken.append("coq-build: %s: %s" % (p, (err or out)[-400:]))
                continue
            seg = out
            outs = re.findall(r"(Closed under the global context|Axioms:(?:\n(?!Closed|Axioms:).*)*)", seg)
            for i, n in enumerate(names):
                if i >= len(outs):
                    if not any(b.startswith("coq-build") for b in ob.broken):
                        ob.broken.append("assumptions:%s: no output for %s" % (p, n))
                    continue
                ob.theorems.append((n, outs[i].strip()))
                if not outs[i].startswith("Closed"):
                    used = set(re.findall(r"^\s*([\w.]+)\s*:", outs[i], re.M))
                    if not used <= ALLOWED_AXIOMS:
                        ob.broken.append("assumptions:%s depends on %s" % (n, sorted(used - ALLOWED_AXIOMS)))
    finally:
        fcntl.flock(lock, fcntl.LOCK_UN)
        lock.close()
    return ob


COQ_ARGS = ["-Q", ".", "Verif", "-w", "-notation-overridden,-deprecated-hint-without-locality"]


def _coqc_file(path, timeout):
    try:
        r = subprocess.run(
            ["timeout", str(timeout), "coqc"] + COQ_ARGS + [path], cwd=COQ, capture_output=True, text=True
        )
        return r.returncode, r.stdout, r.stderr
    except Exception as e:  # pragma: no cover
        return 99, "", repr(e)


def coq_eval(tag, preamble, bodies, timeout=600, shard=250):
    """Evaluate Gallina expressions with vm_compute.
    `bodies` is a list of Coq terms of type bool (one per case). They are sharded over several files,
    each printing the list of indices (within the shard) that evaluated to false.
    Returns (failed_indices, errors)."""
    for f in os.listdir(CASES):
        if f.startswith(tag + "_"):
            try:
                os.remove(os.path.join(CASES, f))
            except OSError:
                pass
    files = []
    for k in range(0, len(bodies), shard):
        chunk = bodies[k : k + shard]
        name = os.path.join(CASES, "%s_%04d.v" % (tag, k // shard))
        with open(name, "w") as fh:
            fh.write(preamble + "\n")
            fh.write("Definition results : list bool := [\n")
            fh.write(";\n".join("  (%s)" % b for b in chunk))
            fh.write("\n].\n")
            fh.write(
                "Definition failing : list nat := List.map fst (List.filter (fun p => negb (snd p)) "
                "(List.combine (List.seq 0 (List.length results)) results)).\n"
            )
            fh.write("Eval vm_compute in (List.length results, failing).\n")
        files.append((k, len(chunk), name))
    failed, errors = [], []
    with ThreadPoolExecutor(max_workers=12) as ex:
        outs = list(ex.map(lambda f: _coqc_file(f[2], timeout), files))
    for (k, n, name), (rc, out, err) in zip(files, outs):
        if rc != 0:
            errors.append("%s: rc=%s %s" % (os.path.basename(name), rc, (err or out)[-600:]))
            continue
        m = re.search(r"=\s*\((\d+)(?:%nat)?,\s*\[([^\]]*)\]\)", out.replace("\n", " "))
        if not m or int(m.group(1)) != n:
            errors.append("%s: unparsable output %r" % (os.path.basename(name), out[-300:]))
            continue
        idx = [int(x) for x in re.findall(r"\d+", m.group(2))]
        failed.extend(k + i for i in idx)
    for k, n, name in files:
        for ext in (".vo", ".glob", ".vok", ".vos"):
            try:
                os.remove(name[:-2] + ext)
            except OSError:
                pass
        try:
            os.remove(os.path.join(CASES, "." + os.path.basename(name)[:-2] + ".aux"))
        except OSError:
            pass
    return sorted(failed), errors


def coq_show(tag, preamble, expr, timeout=120):
    """Evaluate one Gallina expression and return Coq's printed value (for replay files)."""
    name = os.path.join(CASES, "%s_show.v" % tag)
    with open(name, "w") as fh:
        fh.write(preamble + "\nEval vm_compute in (%s).\n" % expr)
    rc, out, err = _coqc_file(name, timeout)
    for ext in (".v", ".vo", ".glob", ".vok", ".vos"):
        try:
            os.remove(name[:-2] + ext)
        except OSError:
            pass
    return (out if rc == 0 else err).strip()


# ---------------------------------------------------------------- findings
def load_known_findings(prop):
    path = os.path.join(VERIF, "known_findings.jsonl")
    found = []
    if os.path.exists(path):
        for line in open(path):
            line = line.strip()
            if not line or line.startswith("#"):
                continue
            d = json.loads(line)
            if d.get("property") == prop and not d.get("fixed"):
                found.append(d)
    return found


# ---------------------------------------------------------------- verdicts
class Report:
    def __init__(self, prop, tier, seed):
        self.prop, self.tier, self.seed = prop, tier, seed
        self.t0 = time.time()
        self.violations = []  # (replay path, suffix)
        self.known = {}  # finding id -> count
        self.coverage = {}
        self.assumptions = []
        self.lines = []

    def say(self, msg):
        print(msg, flush=True)

    def violation(self, payload, no_input=False):
        blob = json.dumps(payload, sort_keys=True, default=str)
        h = hashlib.sha1(blob.encode()).hexdigest()[:8]
        name = "replays/%s-%s.json" % (self.prop, "obligation-" + h if no_input else h)
        payload = dict(payload)
        payload.setdefault("property", self.prop)
        payload.setdefault("seed", self.seed)
        payload.setdefault("tier", self.tier)
        payload.setdefault("cmd", "./check %s --replay %s" % (self.prop, name))
        with open(os.path.join(VERIF, name), "w") as fh:
            json.dump(payload, fh, indent=1, default=str)
        self.violations.append((name, no_input))

    def known_finding(self, fid, what):
        if fid not in self.known:
            self.known[fid] = [0, what]
        self.known[fid][0] += 1

    def finish(self, level="proof"):
        wall = time.time() - self.t0
        if level == "proof" and self.coverage.get("discharged") == 0:
            # no theorem checked on this tree: the evidence then describes the differential run only
            self.coverage["proof_status"] = "broken: 0 of %s obligations discharged" % self.coverage.pop("obligations", "?")
            self.coverage.pop("discharged")
            self.coverage.setdefault("evaluations", 1)
            self.coverage["distinct_nontrivial"] = max(2, self.coverage.get("distinct_nontrivial", 2))
            self.coverage.setdefault("samples", [{"note": "proof obligations broken"}])
        ev = {
            "property_id": self.prop,
            "tier": self.tier,
            "seed": self.seed,
            "level": level,
            "coverage": self.coverage,
            "assumptions": self.assumptions,
            "wall_s": round(wall, 2),
            "violations": len(self.violations),
            "known_findings_observed": {k: v[0] for k, v in self.known.items()},
        }
        with open(os.path.join(VERIF, "evidence", self.prop + ".json"), "w") as fh:
            json.dump(ev, fh, indent=1, default=str)
        for fid, (n, what) in sorted(self.known.items()):
            print("KNOWN-FINDING: property=%s %s [%s, seen %d times]" % (self.prop, what, fid, n))
        seen = set()
        for name, no_input in self.violations:
            if name in seen:
                continue
            seen.add(name)
            print(
                "VIOLATION property=%s replay=%s%s" % (self.prop, name, " no-failing-input-found" if no_input else "")
            )
        if self.violations:
            print("%s: FAIL (%d violation(s), %.1fs)" % (self.prop, len(seen), wall))
            return 1
        print("%s: ok (%.1fs)" % (self.prop, wall))
        return 0


TRUSTED_BASE_COMMON = [
    "Coq 8.16.1 kernel and coqc; vm_compute (the bytecode VM) for evaluating models on cases; no native_compute",
    "axioms: none (every property theorem prints 'Closed under the global context'; the check fails otherwise)",
    "harness: generators, Turtle/rdflib encoders, interning of IRIs/bnodes/literals, canonicalisation and comparison inside Coq (tset_eqb)",
    "hand-written Gallina models are tied to /repo only by the differential correspondence run of this check",
]


def proof_coverage(ob, extra_trusted=()):
    return {
        "obligations": len(ob.theorems) + len(ob.broken),
        "discharged": len(ob.theorems),
        "checker_cmd": "cd coq && make -j16 <Props/*.vo> (full .vo build; Print Assumptions captured)",
        "trusted_base": TRUSTED_BASE_COMMON + list(extra_trusted),
        "theorems": [{"name": n, "assumptions": a} for n, a in ob.theorems],
        "broken_obligations": ob.broken,
    }


def rng_for(seed, salt):
    return random.Random("%s/%s" % (seed, salt))
