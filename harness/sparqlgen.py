"""C05: template family of SPARQL-based constraints and constraint components; the solutions each query has
for a focus node (value node) are obtained by running the declared query DIRECTLY through rdflib with the
SHACL-SPARQL pre-bindings (an independent re-statement of the pre-binding rules, not pySHACL's helper)."""
import re

import rdflib
from rdflib import BNode, Literal, URIRef
from rdflib.namespace import OWL, RDF, XSD

from . import enc
from .enc import EX, SH

PFX = "PREFIX ex: <http://ex.org/>\n"

# sh:sparql SELECT templates: (query, needs a property shape)
SELECTS = [
    ("SELECT $this ?value WHERE { $this ex:p ?value . FILTER (isLiteral(?value)) }", False),
    ("SELECT $this ?value ?other WHERE { $this ex:p ?value . OPTIONAL { ?value ex:q ?other } }", False),
    ("SELECT $this ?value (ex:q AS ?path) WHERE { $this ex:q ?value }", False),
    ("SELECT $this ?value WHERE { $this $PATH ?value . FILTER (!isIRI(?value)) }", True),
    ("SELECT $this ?value ?other WHERE { $this $PATH ?value . ?value ex:p ?other }", True),
    ("SELECT $this WHERE { FILTER NOT EXISTS { $this ex:r ?any } }", False),
    ("SELECT $this ?failure WHERE { $this ex:r ?x . FILTER (isLiteral(?x)) BIND (true AS ?failure) }", False),
    ("SELECT ?this ?value WHERE { ?this ex:q ?value . FILTER (?this = $this) }", False),
]
FORBIDDEN = [
    "SELECT $this WHERE { $this ex:p ?v . MINUS { $this ex:q ?v } }",
    "SELECT $this WHERE { VALUES ?v { 1 2 } $this ex:p ?v }",
    "SELECT $this WHERE { SERVICE <http://ex.org/sparql> { $this ex:p ?v } }",
    "SELECT $this ?value WHERE { $this ex:p ?x . BIND (?x AS ?this) }",
    "SELECT $this WHERE { { SELECT ?v WHERE { ?s ex:p ?v } } $this ex:p ?v }",
    # the same constructs after a '#': an IRI with a fragment, a comment line, a trailing comment
    "SELECT $this WHERE { $this <http://www.w3.org/2000/01/rdf-schema#label> ?l . VALUES ?v { 1 2 } $this ex:p ?v }",
    "# the values of ex:p\nSELECT $this WHERE { VALUES ?v { 1 2 } $this ex:p ?v }",
    "SELECT $this WHERE { $this ex:p ?v . # only two of them\n VALUES ?v { 1 2 } }",
    "SELECT $this WHERE { $this <http://www.w3.org/2000/01/rdf-schema#label> ?l . MINUS { $this ex:q ?l } }",
    "# a remote look-up\nSELECT $this WHERE { SERVICE <http://ex.org/sparql> { $this ex:p ?v } }",
]
MESSAGES = ["Value {?value} of {$this}", "other={?other} value={$value}", "fixed message", "path {?path} on {$this}"]

ASKS = [
    ("ASK { FILTER (isIRI($value)) }", None),
    ("ASK { $value ex:p ?x }", None),
    ("ASK { FILTER ($value != $arg) }", "arg"),
    ("ASK { $this ex:r $value }", None),
    ("ASK { $value ex:nosuchproperty ?x }", None),
    ("ASK { $value ex:nosuchproperty ?x }", None),
]
CSELECTS = [
    ("SELECT $this ?value WHERE { $this $PATH ?value . FILTER (?value = $arg) }", True),
    ("SELECT $this ?value WHERE { $this ex:p ?value . FILTER (isLiteral(?value)) }", False),
    # no DISTINCT and a join over a variable that is not projected: the same solution comes back in several rows
    ("SELECT $this ?value WHERE { $this ex:p ?value . ?anys ?anyp ?value }", False),
    ("SELECT $this WHERE { $this ?anyp ?anyo }", False),
    ("SELECT $this ?value WHERE { $this $PATH ?value . ?value ?anyp ?anyo }", True),
]
# component validators SHACL-SPARQL forbids: the component's parameter is a pre-bound variable as well
FORBIDDEN_ASKS = [
    "ASK { BIND (20 AS ?arg) FILTER ($value != $arg) }",
    "ASK { $value ex:p ?x . MINUS { $value ex:q ?x } }",
    "ASK { VALUES ?x { 1 2 } $value ex:p ?x }",
    "ASK { BIND ($this AS ?value) }",
    "ASK { $value <http://www.w3.org/2000/01/rdf-schema#label> ?l . VALUES ?x { 1 2 } $value ex:p ?x }",
    "# comment first\nASK { VALUES ?x { 1 2 } $value ex:p ?x }",
]
FORBIDDEN_CSELECTS = [
    "SELECT $this ?value WHERE { $this ex:p ?value . BIND (20 AS ?arg) }",
    "SELECT $this (?x AS ?arg) WHERE { $this ex:p ?x }",
    "SELECT $this ?value WHERE { $this ex:p ?value . MINUS { $this ex:q ?value } }",
    "SELECT $this WHERE { { SELECT ?v WHERE { ?s ex:p ?v } } $this ex:p ?v }",
    "SELECT $this ?value WHERE { $this ex:p ?x . BIND (?x AS ?this) }",
    "SELECT $this ?value WHERE { $this <http://www.w3.org/2000/01/rdf-schema#label> ?l . VALUES ?value { 1 2 } $this ex:p ?value }",
]
CMESSAGES = ["Value {$value} on {$this} arg {$arg}", "plain"]


def gen_sparql_constraint(rng, is_prop):
    if rng.random() < 0.12:
        q = rng.choice(FORBIDDEN)
    else:
        q = rng.choice([t for t, needs in SELECTS if is_prop or not needs])
    return {
        "node": BNode("sc%06x" % rng.getrandbits(24)),
        "select": q,
        "msgs": rng.sample(MESSAGES, rng.choice([0, 1, 1, 2])),
        "deact": rng.random() < 0.08,
    }


def gen_custom(rng, idx, args):
    u = "%06x" % rng.getrandbits(24)
    kind = rng.choice(["ask", "ask", "select"])
    # the pre-bound variable of a parameter is named after the local name of its sh:path
    var = "arg" + u
    c = {"node": EX["Comp" + u], "param": EX[var], "var": var, "arg": rng.choice(args), "kind": kind,
         "msgs": [m.replace("$arg", "$" + var) for m in rng.sample(CMESSAGES, rng.choice([0, 1, 2]))], "validator": BNode("val" + u)}
    if kind == "ask":
        c["query"], c["uses_arg"] = rng.choice(ASKS)
    else:
        c["query"], c["needs_prop"] = rng.choice(CSELECTS)
    c["query"] = c["query"].replace("$arg", "$" + var)
    # a component may declare validators for several roles: only the one SHACL selects for the shape kind applies
    c["role_mix"] = rng.random() < 0.4
    c["on_prop"] = False
    return c


# ------------------------------------------------------------------ rendering to RDF
def add_prefix_decl(g):
    g.add((EX.prefixes, RDF.type, OWL.Ontology))
    d = BNode("decl")
    g.add((EX.prefixes, SH.declare, d))
    g.add((d, SH.prefix, Literal("ex")))
    g.add((d, SH.namespace, Literal("http://ex.org/", datatype=XSD.anyURI)))


PFX_ALT = "PREFIX ex: <http://ex.org/alt#>\n"


def prefixes_node(g, c):
    """the owl:Ontology whose sh:declare entries the query of c uses: usually ex:prefixes; with c["alt_ns"] a second ontology
    that binds the same prefix to another namespace (declarations of one ontology must not reach queries pointing to the other)"""
    if not c.get("alt_ns"):
        return EX.prefixes
    g.add((EX.prefixes2, RDF.type, OWL.Ontology))
    d = BNode("decl2")
    g.add((EX.prefixes2, SH.declare, d))
    g.add((d, SH.prefix, Literal("ex")))
    g.add((d, SH.namespace, Literal("http://ex.org/alt#", datatype=XSD.anyURI)))
    return EX.prefixes2


def sparql_to_rdf(g, n, c):
    add_prefix_decl(g)
    for sc in c[1]:
        g.add((n, SH.sparql, sc["node"]))
        g.add((sc["node"], SH.select, Literal(sc["select"])))
        g.add((sc["node"], SH.prefixes, prefixes_node(g, sc)))
        for m in sc["msgs"]:
            g.add((sc["node"], SH.message, Literal(m)))
        if sc["deact"]:
            g.add((sc["node"], SH.deactivated, Literal(True)))


def custom_to_rdf(g, n, c):
    add_prefix_decl(g)
    cc = c[1]
    g.add((cc["node"], RDF.type, SH.ConstraintComponent))
    p = BNode("par" + str(cc["node"])[-6:])
    g.add((cc["node"], SH.parameter, p))
    g.add((p, SH.path, cc["param"]))
    v = cc["validator"]

    def decoy_select(role):
        d = BNode("dec%s%s" % (role[:1], str(cc["node"])[-6:]))
        g.add((cc["node"], SH[role], d))
        g.add((d, RDF.type, SH.SPARQLSelectValidator))
        g.add((d, SH.select, Literal("SELECT $this ?value WHERE { $this ?anyp ?value }")))
        g.add((d, SH.prefixes, EX.prefixes))
        g.add((d, SH.message, Literal("validator of another role answered")))

    mix, on_prop = cc.get("role_mix"), cc.get("on_prop")
    other_role = "nodeValidator" if on_prop else "propertyValidator"
    if cc["kind"] == "ask":
        g.add((cc["node"], SH.validator, v))
        g.add((v, RDF.type, SH.SPARQLAskValidator))
        g.add((v, SH.ask, Literal(cc["query"])))
        if mix:
            decoy_select(other_role)
    else:
        if mix:
            g.add((cc["node"], SH.propertyValidator if on_prop else SH.nodeValidator, v))
            decoy_select(other_role)
            d = BNode("deca%s" % str(cc["node"])[-6:])
            g.add((cc["node"], SH.validator, d))
            g.add((d, RDF.type, SH.SPARQLAskValidator))
            g.add((d, SH.ask, Literal("ASK { FILTER (false) }")))
            g.add((d, SH.prefixes, EX.prefixes))
            g.add((d, SH.message, Literal("generic validator answered although a specific one exists")))
        else:
            g.add((cc["node"], SH.nodeValidator, v))
            g.add((cc["node"], SH.propertyValidator, v))
        g.add((v, RDF.type, SH.SPARQLSelectValidator))
        g.add((v, SH.select, Literal(cc["query"])))
    g.add((v, SH.prefixes, prefixes_node(g, cc)))
    for m in cc["msgs"]:
        g.add((v, SH.message, Literal(m)))
    g.add((n, cc["param"], cc["arg"]))


# ------------------------------------------------------------------ the oracle: run the declared query directly
def path_text(path):
    """the SPARQL 1.1 property path a SHACL path stands for, written with every operand in brackets (an independent, fully bracketed
    printer: what $PATH is replaced with must MEAN this, however it is spelled)"""
    k = path[0]
    if k == "pred":
        return "<%s>" % path[1]
    if k == "inv":
        return "^(%s)" % path_text(path[1])
    if k in ("seq", "alt"):
        return "(%s)" % (" / " if k == "seq" else " | ").join("(%s)" % path_text(q) for q in path[1])
    return "(%s)%s" % (path_text(path[1]), {"star": "*", "plus": "+", "opt": "?"}[k])


def run_query(data, text, shape, this, value=None, extra=None, alt_ns=False):
    q = text
    if shape["path"] is not None:
        q = re.sub(r"[\$\?]PATH\b", path_text(shape["path"]), q)
    binds = {}
    if re.search(r"[\$\?]this\b", q):
        binds["this"] = this
    if value is not None and re.search(r"[\$\?]value\b", q):
        binds["value"] = value
    if re.search(r"[\$\?]currentShape\b", q):
        binds["currentShape"] = shape["id"]
    for k, v in (extra or {}).items():
        binds[k] = v
    return data.query((PFX_ALT if alt_ns else PFX) + q, initBindings=binds)


def render_message(template, sigma):
    """SHACL-SPARQL 5.3.3: {?var} / {$var} are replaced by the values of the solution / pre-bound variables"""
    # one pass over the declared template: a value is inserted verbatim, text it brings along is not a placeholder
    def put(m):
        val = sigma.get(m.group(1))
        return m.group(0) if val is None else str(val)
    return Literal(re.sub(r"\{[\?\$]([^{}]+)\}", put, template))


def sols_for_sparql(data, shape, sc, focus):
    """rows of the sh:sparql query for one focus node, as the model's `sol` records (dicts)"""
    rows = []
    rest_ids = {}
    for r in run_query(data, sc["select"], shape, focus, alt_ns=sc.get("alt_ns", False)):
        d = {str(k): v for k, v in r.asdict().items()}
        failure = d.pop("failure", None)
        p, v, t = d.pop("path", None), d.pop("value", None), d.pop("this", None)
        key = tuple(sorted((k, x.n3()) for k, x in d.items()))
        rest = rest_ids.setdefault(key, len(rest_ids) + 1)
        # the bindings a message may mention: the pre-bound $this and the row's own bindings
        sigma = dict(d)
        sigma["this"] = t if t is not None else focus
        if failure is None:
            result_val = None if shape["path"] is not None else focus
            vv = v if v is not None else result_val
            sigma.update({"path": p, "value": vv})
        else:
            sigma.update({"path": p, "value": v})
        msgs = [render_message(m, sigma) for m in sc["msgs"]]
        rows.append({"failure": failure is not None, "this": t, "path": p, "value": v, "rest": rest, "msgs": msgs})
    return rows


def custom_ask(data, shape, cc, focus, value):
    extra = {cc["var"]: cc["arg"]}
    ans = run_query(data, cc["query"], shape, focus, value, extra, alt_ns=cc.get("alt_ns", False)).askAnswer
    sigma = {cc["var"]: cc["arg"], "this": focus, "value": value}
    if shape["path"] is not None:
        sigma["path"] = URIRef(shape["path"][1])
    # pySHACL's Literal arguments render as their Python value in messages; IRIs as the IRI
    sig2 = {k: (v.value if isinstance(v, Literal) and k == "arg" and False else v) for k, v in sigma.items()}
    return bool(ans), [render_message(m, sig2) for m in cc["msgs"]]


def custom_select(data, shape, cc, focus, value):
    rows = []
    for r in run_query(data, cc["query"], shape, focus, value, {cc["var"]: cc["arg"]}, alt_ns=cc.get("alt_ns", False)):
        d = {str(k): v for k, v in r.asdict().items()}
        failure = d.pop("failure", None)
        p, v, t = d.pop("path", None), d.pop("value", None), d.pop("this", None)
        sigma = {cc["var"]: cc["arg"], "this": t if t is not None else focus, "value": v if v is not None else value}
        if shape["path"] is not None:
            sigma["path"] = URIRef(shape["path"][1])
        if p is not None:
            sigma["path"] = p
        msgs = [render_message(m, sigma) for m in cc["msgs"]]
        rows.append({"failure": failure is not None, "this": t, "path": p, "value": v, "rest": 0, "msgs": msgs})
    return rows


# ------------------------------------------------------------------ rendering to Gallina
def sol_to_coq(I, so):
    o = lambda x: "None" if x is None else enc.coq_opt(I.term(x))
    return "{| sol_failure := %s; sol_this := %s; sol_path := %s; sol_value := %s; sol_rest := %d; sol_msgs := %s |}" % (
        enc.coq_bool(so["failure"]), o(so["this"]), o(so["path"]), o(so["value"]), so["rest"], I.terms(so["msgs"]))


def value_nodes_of(data, shape, focus):
    if shape["path"] is None:
        return [focus]
    return sorted(set(data.objects(focus, URIRef(shape["path"][1]))), key=lambda t: t.n3())


def comp_to_coq(I, c, shape, data, foci):
    if c[0] == "sparql":
        items = []
        for sc in c[1]:
            if any(f in sc["select"] for f in ("MINUS", "VALUES", "SERVICE", "AS ?this", "{ SELECT")):
                table = []  # forbidden syntax: the model is not consulted (ValidationFailure expected)
            else:
                table = ["(%s, [%s])" % (I.term(f), "; ".join(sol_to_coq(I, so) for so in sols_for_sparql(data, shape, sc, f))) for f in foci]
            items.append("{| sc_deact := %s; sc_sols := [%s] |}" % (enc.coq_bool(sc["deact"]), "; ".join(table)))
        return "CSparql [%s]" % "; ".join(items)
    cc = c[1]
    if cc["kind"] == "ask":
        rows = []
        for f in foci:
            for v in value_nodes_of(data, shape, f):
                a, msgs = custom_ask(data, shape, cc, f, v)
                rows.append("(%s, %s, %s, %s)" % (I.term(f), I.term(v), enc.coq_bool(a), I.terms(msgs)))
        val = "VAsk [%s]" % "; ".join(rows)
    else:
        rows = []
        for f in foci:
            for v in value_nodes_of(data, shape, f):
                rows.append("(%s, %s, [%s])" % (I.term(f), I.term(v), "; ".join(sol_to_coq(I, so) for so in custom_select(data, shape, cc, f, v))))
        val = "VSelect [%s]" % "; ".join(rows)
    return "CCustom {| cc_node := %d; cc_val := %s |}" % (I.iri_num(cc["node"]), val)
