"""Correspondence of the evaluator model (Shapes/Eval.v) with pyshacl.validate()."""
from . import enc, framework as F, shapes as S

PREAMBLE = (
    "From Coq Require Import List NArith ZArith Bool.\n"
    "From Verif Require Import Base.SetList Base.Terms Base.Vocab Paths.Path Paths.PathCheck "
    "Shapes.AST Shapes.Leaf Shapes.Eval Shapes.EvalCheck.\n"
    "Import ListNotations.\nOpen Scope N_scope.\n"
)
EXTRA_VO = ["Shapes/EvalCheck.v", "Paths/PathCheck.v"]


def vocab_fresh():
    import subprocess, os, sys
    r = subprocess.run([sys.executable, os.path.join(F.VERIF, "tools", "gen_vocab.py"), "--check"])
    return r.returncode == 0


def model_vs_impl(tag, cases, check_fn="check_validate", shard=120):
    """cases: list of dicts with keys shapes (AST list), sg (rdflib shapes graph), data (rdflib graph), opts (kwargs).
    Runs validate() on each, then evaluates `check_fn opts sg g env observed` in Coq.
    Returns (observations, failed_case_indices, raw_exception_indices, coq_errors, bodies)."""
    from pyshacl.shapes_graph import ShapesGraph

    observations, bodies, index, raw = [], [], [], []
    for i, c in enumerate(cases):
        obs = S.run_validate(c["data"], c["sg"], **c["opts"])
        observations.append(obs)
        I = enc.Interner()
        oc = S.observed_to_coq(I, obs)
        if oc is None:
            raw.append(i)
            continue
        sgx = ShapesGraph(c["sg"]).graph  # adds the system triples exactly as the validator does
        body = "%s (%s) (%s) (%s) (%s) (%s)" % (
            check_fn,
            S.opts_to_coq(I, c["opts"]),
            I.graph(S.class_triples(sgx)),
            I.graph(c["data"]),
            S.env_to_coq(I, c["shapes"]),
            oc,
        )
        bodies.append(body)
        index.append(i)
    failed, errors = F.coq_eval(tag, PREAMBLE, bodies, shard=shard)
    return observations, [index[k] for k in failed], raw, errors, dict(zip(index, bodies))


def show_model(tag, body, check_fn="check_validate"):
    expr = body.replace(check_fn, "(fun o sg g E _ => validate o sg g E)", 1)
    return F.coq_show(tag, PREAMBLE, expr)
