"""Correspondence of the evaluator model (Shapes/Eval.v) with pyshacl.validate()."""
from . import enc, framework as F, shapes as S
from rdflib import URIRef

PREAMBLE = (
    "From Coq Require Import List NArith ZArith QArith Bool.\n"
    "From Verif Require Import Base.SetList Base.Terms Base.Vocab Paths.Path Paths.PathCheck "
    "Shapes.AST Shapes.Leaf Shapes.Eval Shapes.EvalCheck.\n"
    "Import ListNotations.\nOpen Scope N_scope.\n"
)
EXTRA_VO = ["Shapes/EvalCheck.v", "Paths/PathCheck.v"]


def vocab_fresh():
    import subprocess, os, sys
    r = subprocess.run([sys.executable, os.path.join(F.VERIF, "tools", "gen_vocab.py"), "--check"])
    return r.returncode == 0


def model_vs_impl(tag, cases, check_fn="check_validate", shard=120):
    """cases: list of dicts with keys shapes (AST list), sg (rdflib shapes graph), data (rdflib graph), opts (kwargs).
    Runs validate() on each, then evaluates `check_fn opts sg g env observed` in Coq.
    Returns (observations, failed_case_indices, raw_exception_indices, coq_errors, bodies)."""
    from pyshacl.shapes_graph import ShapesGraph

    observations, bodies, index, raw = [], [], [], []
    for i, c in enumerate(cases):
        obs = S.run_validate(c["data"], c["sg"], **c["opts"])
        observations.append(obs)
        I = enc.Interner()
        oc = S.observed_to_coq(I, obs, c["shapes"])
        if oc is None:
            raw.append(i)
            continue
        sgx = ShapesGraph(c["sg"]).graph  # adds the system triples exactly as the validator does
        fn = check_fn
        if check_fn == "SEL":
            fn = "check_validate_sel %s" % I.terms(c["sel"]["U"])
        mopts = dict(c["opts"])
        mopts.update(c.get("model_opts", {}))
        if "render" in c:
            world, envs = c["render"](I)
        else:
            ctx = None
            if any(cmp[0] in ("sparql", "custom") for sh in c["shapes"] for cmp in sh["comps"]):
                foci = set()
                for tr in c["data"]:
                    foci.add(tr[0]); foci.add(tr[2])
                for sh in c["shapes"]:
                    foci.update(sh["targets"]["nodes"])
                foci.update(c.get("nodes", []))   # also nodes that occur in no triple (explicit focus_nodes may name them)
                foci.update(c.get("lits", []))
                ctx = {"data": c["data"], "foci": sorted(foci, key=lambda t: t.n3())}
            world, envs = "empty_world", S.env_to_coq(I, c["shapes"], ctx=ctx)
        body = "%s (%s) (%s) (%s) (%s) (%s) (%s)" % (
            fn,
            world,
            S.opts_to_coq(I, mopts),
            I.graph(S.class_triples(sgx)),
            I.graph(c["data"]),
            envs,
            oc,
        )
        bodies.append(body)
        index.append(i)
    failed, errors = F.coq_eval(tag, PREAMBLE, bodies, shard=shard)
    return observations, [index[k] for k in failed], raw, errors, dict(zip(index, bodies))


def show_model(tag, body, check_fn="check_validate"):
    if check_fn == "SEL":
        expr = body.replace("check_validate_sel", "(fun use W o sg g E _ => validate_sel_impl W o sg g E use)", 1)
    else:
        expr = body.replace(check_fn, "(fun W o sg g E _ => validate_impl W o sg g E)", 1)
    return F.coq_show(tag, PREAMBLE, expr)


def standard_main(prop, prop_files, tier, seed, cases, rule, what, metamorphic=None, check_fn="check_validate",
                  extra_assumptions=(), known=None, extra_vo=(), translators=(), extra_checks=None):
    """Shared driver: proof gates, model-vs-implementation correspondence on `cases`, optional metamorphic
    relation on the real code alone (`metamorphic(cases, observations)` -> list of (case index, description))."""
    rep = F.Report(prop, tier, seed)
    ob = F.coq_build(prop_files, translators=list(translators), extra=list(EXTRA_VO) + list(extra_vo))
    if not vocab_fresh():
        ob.broken.append("gate: coq/Base/Vocab.v is stale w.r.t. harness/enc.py")
    tag = prop.lower()
    if ob.ok:
        obs, failed, raw, errors, bodies = model_vs_impl(tag, cases, check_fn=check_fn)
    else:
        obs = [S.run_validate(c["data"], c["sg"], **c["opts"]) for c in cases]
        failed, raw, errors, bodies = [], [i for i, o in enumerate(obs) if o[0] == "err" and o[1].startswith("RAW:")], ["coq build broken"], {}
    meta_viol = metamorphic(cases, obs) if metamorphic else []
    seen = set()
    for i, desc in meta_viol[:10]:
        d = S.describe_case(cases[i]["sg"], cases[i]["data"], cases[i]["opts"], obs[i])
        d["what"] = desc
        d["group"] = cases[i].get("group")
        rep.violation(d)
        seen.add(i)
    for i in raw[:10]:
        if i in seen:
            continue
        d = S.describe_case(cases[i]["sg"], cases[i]["data"], cases[i]["opts"], obs[i])
        d["what"] = "undocumented exception escaped validate()"
        rep.violation(d)
    for i in failed[:10]:
        if i in seen:
            continue
        d = S.describe_case(cases[i]["sg"], cases[i]["data"], cases[i]["opts"], obs[i])
        d["model"] = show_model(tag, bodies[i], check_fn) if check_fn in ("check_validate", "SEL") else "see check function " + check_fn
        d["what"] = what
        rep.violation(d)
    extra_stats = {}
    if extra_checks:
        # further correspondence runs of this property (they search for a failing input even when an obligation is broken)
        st_, fails_, errs_ = extra_checks()
        extra_stats.update(st_)
        for d in fails_[:6]:
            rep.violation(d)
        errors = list(errors) + list(errs_ if ob.ok else [])
    if (not ob.ok or errors) and not rep.violations:
        rep.violation({"obligation": ob.broken or errors, "detail": ob.log[-1500:]}, no_input=True)
    kinds, optk = {}, {}
    for c in cases:
        for s in c["shapes"]:
            for comp in s["comps"]:
                kinds[comp[0]] = kinds.get(comp[0], 0) + 1
        k = ",".join("%s=%s" % (kv[0], kv[1] if not hasattr(kv[1], "namespace_manager") else "<graph>") for kv in sorted(c["opts"].items(), key=lambda kv: kv[0]) if kv[0] != "focus_nodes") or "default"
        optk[k] = optk.get(k, 0) + 1
    nontrivial = set()
    for i, o in enumerate(obs):
        if (o[0] == "ok" and o[2]) or o[0] == "err":
            nontrivial.add(repr(S.describe_case(cases[i]["sg"], cases[i]["data"], cases[i]["opts"], o)["observed"]) + repr(sorted(cases[i]["opts"].items())) + cases[i]["sg"].serialize(format="nt"))
    cov = F.proof_coverage(ob)
    cov.update({
        "evaluations": len(cases),
        "distinct_nontrivial": len(nontrivial),
        "rule": rule,
        "distribution": {
            "components": kinds, "options": optk,
            "nonconforming": sum(1 for o in obs if o[0] == "ok" and not o[1]),
            "errors": {e: sum(1 for o in obs if o[0] == "err" and o[1] == e) for e in sorted({o[1] for o in obs if o[0] == "err"})},
            "with_details": sum(1 for o in obs if o[0] == "ok" and any(r[5] for r in o[2])),
            "model_disagreements": len(failed), "metamorphic_violations": len(meta_viol), **extra_stats,
        },
        "samples": [S.describe_case(cases[i]["sg"], cases[i]["data"], cases[i]["opts"], obs[i]) for i in range(min(2, len(obs)))],
    })
    rep.coverage = cov
    rep.assumptions = ["leaf components outside the modelled kinds are exercised by C01"] + list(extra_assumptions)
    return rep.finish()


def base_case(rng, tmpls=None, p_focused=0.4, **kw):
    data, nodes, lits = S.gen_typed_data(rng, n_iri=rng.randint(2, 5), n_bn=rng.randint(0, 1), n_lit=rng.randint(0, 2), n_triples=rng.randint(2, 12))
    if rng.random() < p_focused:
        # focused case: one mechanism only, so that a wrong verdict of one shape is not masked by other shapes
        tmpl = rng.choice(tmpls or [S.tmpl_custom, S.tmpl_severity, S.tmpl_qualified, S.tmpl_nested_severity, S.tmpl_shared, S.tmpl_multi_logical, S.tmpl_custom_alone, S.tmpl_several_lists])
        shapes = tmpl(rng, nodes, lits)
        if rng.random() < 0.3:
            shapes[0]["targets"]["nodes"] = shapes[0]["targets"]["nodes"][:1]
        if rng.random() < 0.5:
            # several values per focus node and predicate: counting constraints are decided by more than one value
            for f in shapes[0]["targets"]["nodes"]:
                for _ in range(rng.randint(2, 4)):
                    o_ = rng.choice(nodes + lits)
                    data.add((f, URIRef(rng.choice(S.PREDS[:2])), o_))
                    if tmpl is S.tmpl_shared or rng.random() < 0.3:
                        # the same node as value of both predicates: a shape may meet it twice in one run
                        data.add((f, URIRef(S.PREDS[0]), o_))
                        data.add((f, URIRef(S.PREDS[1]), o_))
    else:
        shapes = S.gen_shapes(rng, nodes, lits, n_shapes=rng.randint(2, 7), **kw)
        S.add_templates(rng, shapes, nodes, lits)
    return {"shapes": shapes, "sg": S.shapes_to_rdf(shapes), "data": data, "nodes": nodes, "lits": lits}


def keys(obs):
    return sorted((S.result_key(r) for r in obs[2]), key=repr)
