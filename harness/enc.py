"""Encoders shared by the checks: abstract syntax <-> rdflib graphs <-> Gallina terms."""
import rdflib
from rdflib import BNode, Literal, URIRef
from rdflib.namespace import RDF, RDFS, XSD

SH = rdflib.Namespace("http://www.w3.org/ns/shacl#")
EX = rdflib.Namespace("http://ex.org/")


class Interner:
    """Interns IRIs, blank nodes and literal components to numbers (one table per case)."""

    # fixed numbers for terms the models mention by name (Base/Vocab.v)
    FIXED = {
        str(RDF.type): 1,
        str(RDFS.subClassOf): 2,
        str(RDFS.Class): 3,
        str(SH.Violation): 4,
        str(SH.Warning): 5,
        str(SH.Info): 6,
        str(RDFS.Resource): 7,
        str(XSD.string): 8,
        str(RDF.langString): 9,
        str(SH.NotConstraintComponent): 20,
        str(SH.AndConstraintComponent): 21,
        str(SH.OrConstraintComponent): 22,
        str(SH.XoneConstraintComponent): 23,
        str(SH.NodeConstraintComponent): 24,
        str(SH.PropertyConstraintComponent): 25,
        str(SH.QualifiedMinCountConstraintComponent): 26,
        str(SH.QualifiedMaxCountConstraintComponent): 27,
        str(SH.ClassConstraintComponent): 30,
        str(SH.DatatypeConstraintComponent): 31,
        str(SH.NodeKindConstraintComponent): 32,
        str(SH.MinCountConstraintComponent): 33,
        str(SH.MaxCountConstraintComponent): 34,
        str(SH.MinExclusiveConstraintComponent): 35,
        str(SH.MinInclusiveConstraintComponent): 36,
        str(SH.MaxExclusiveConstraintComponent): 37,
        str(SH.MaxInclusiveConstraintComponent): 38,
        str(SH.MinLengthConstraintComponent): 39,
        str(SH.MaxLengthConstraintComponent): 40,
        str(SH.PatternConstraintComponent): 41,
        str(SH.LanguageInConstraintComponent): 42,
        str(SH.UniqueLangConstraintComponent): 43,
        str(SH.EqualsConstraintComponent): 44,
        str(SH.DisjointConstraintComponent): 45,
        str(SH.LessThanConstraintComponent): 46,
        str(SH.LessThanOrEqualsConstraintComponent): 47,
        str(SH.HasValueConstraintComponent): 48,
        str(SH.InConstraintComponent): 49,
        str(SH.ClosedConstraintComponent): 50,
        str(SH.SPARQLConstraintComponent): 51,
        str(SH.ExpressionConstraintComponent): 52,
        str(SH.result): 60,
        str(SH.focusNode): 61,
        str(SH.value): 62,
        str(SH.resultPath): 63,
        str(SH.sourceShape): 64,
        str(SH.sourceConstraintComponent): 65,
        str(SH.resultSeverity): 66,
        str(SH.resultMessage): 67,
        str(SH.detail): 68,
        str(SH.conforms): 69,
        str(SH.ValidationReport): 70,
        str(SH.ValidationResult): 71,
    }

    def __init__(self):
        self.iri = dict(self.FIXED)
        self.bn = {}
        self.strs = {"": 0}
        self.next_iri = 1000

    def _str(self, s):
        if s not in self.strs:
            self.strs[s] = len(self.strs)
        return self.strs[s]

    def term(self, t):
        if isinstance(t, URIRef):
            k = str(t)
            if k not in self.iri:
                self.iri[k] = self.next_iri
                self.next_iri += 1
            return "IRI %d" % self.iri[k]
        if isinstance(t, BNode):
            k = str(t)
            if k not in self.bn:
                self.bn[k] = len(self.bn) + 1
            return "BN %d" % self.bn[k]
        if isinstance(t, Literal):
            dt = str(t.datatype) if t.datatype is not None else ""
            lang = (t.language or "").lower()
            return "LIT %d %d %d" % (self._str("L:" + str(t)), self._str("D:" + dt) if dt else 0, self._str("G:" + lang) if lang else 0)
        raise TypeError("not an RDF term: %r" % (t,))

    def iri_num(self, t):
        s = self.term(URIRef(t))
        return int(s.split()[1])

    def terms(self, ts):
        return "[" + "; ".join("(%s)" % self.term(t) for t in ts) + "]"

    def graph(self, g):
        return "[" + "; ".join("(%s, %s, %s)" % tuple(self.term(t) for t in tr) for tr in sorted(g)) + "]"

    def table(self):
        return {"iri": self.iri, "bnode": self.bn, "strings": self.strs}


def coq_list(items):
    return "[" + "; ".join(items) + "]"


def coq_bool(b):
    return "true" if b else "false"


def coq_opt(x):
    return "None" if x is None else "(Some (%s))" % x


# ------------------------------------------------------------------ paths
def path_to_rdf(g, p):
    """Adds the SHACL encoding of path AST p to graph g; returns the node."""
    kind = p[0]
    if kind == "pred":
        return URIRef(p[1])
    if kind == "seq":
        return _rdf_list(g, [path_to_rdf(g, q) for q in p[1]])
    node = BNode()
    if kind == "alt":
        g.add((node, SH.alternativePath, _rdf_list(g, [path_to_rdf(g, q) for q in p[1]])))
    else:
        pred = {"inv": SH.inversePath, "star": SH.zeroOrMorePath, "plus": SH.oneOrMorePath, "opt": SH.zeroOrOnePath}[kind]
        g.add((node, pred, path_to_rdf(g, p[1])))
    return node


def _rdf_list(g, items):
    if not items:
        return RDF.nil
    head = BNode()
    cur = head
    for i, it in enumerate(items):
        g.add((cur, RDF.first, it))
        if i + 1 < len(items):
            nxt = BNode()
            g.add((cur, RDF.rest, nxt))
            cur = nxt
        else:
            g.add((cur, RDF.rest, RDF.nil))
    return head


def rdf_list(g, items):
    return _rdf_list(g, items)


def path_to_coq(I, p):
    kind = p[0]
    if kind == "pred":
        return "PPred %d" % I.iri_num(p[1])
    if kind in ("seq", "alt"):
        return "%s [%s]" % ("PSeq" if kind == "seq" else "PAlt", "; ".join("(%s)" % path_to_coq(I, q) for q in p[1]))
    c = {"inv": "PInv", "star": "PStar", "plus": "PPlus", "opt": "POpt"}[kind]
    return "%s (%s)" % (c, path_to_coq(I, p[1]))


def path_str(p):
    kind = p[0]
    if kind == "pred":
        return p[1].rsplit("/", 1)[-1]
    if kind == "seq":
        return "(" + "/".join(path_str(q) for q in p[1]) + ")"
    if kind == "alt":
        return "(" + "|".join(path_str(q) for q in p[1]) + ")"
    if kind == "inv":
        return "^" + path_str(p[1])
    return path_str(p[1]) + {"star": "*", "plus": "+", "opt": "?"}[kind]


def gen_path(rng, preds, depth, allow_short_lists=False):
    """Random path AST of nesting depth <= depth over the predicate alphabet."""
    if depth <= 0 or rng.random() < 0.25:
        return ("pred", rng.choice(preds))
    k = rng.choice(["inv", "seq", "alt", "star", "plus", "opt", "inv", "seq"])
    if k in ("seq", "alt"):
        lo = 1 if (allow_short_lists and rng.random() < 0.15) else 2
        n = rng.randint(lo, 3)
        return (k, [gen_path(rng, preds, depth - 1, allow_short_lists) for _ in range(n)])
    return (k, gen_path(rng, preds, depth - 1, allow_short_lists))


def all_paths(preds, depth):
    """Exhaustive enumeration up to the given depth (lists of length 2 only)."""
    if depth == 0:
        return [("pred", p) for p in preds]
    sub = all_paths(preds, depth - 1)
    out = list(sub)
    for q in sub:
        for k in ("inv", "star", "plus", "opt"):
            out.append((k, q))
    for a in sub:
        for b in sub:
            out.append(("seq", [a, b]))
            out.append(("alt", [a, b]))
    return out


# ------------------------------------------------------------------ data graphs
def gen_nodes(rng, n_iri=4, n_bn=1, n_lit=2):
    nodes = [EX["n%d" % i] for i in range(n_iri)]
    nodes += [BNode("b%d" % i) for i in range(n_bn)]
    lits = [Literal(i) for i in range(n_lit)]
    if lits and rng.random() < 0.3:
        # a plain string whose lexical form spells a node of the same graph (IRI or blank node label): a distinct term
        lits[-1] = Literal(str(rng.choice(nodes)))
    if lits and rng.random() < 0.3:
        # and terms that differ only in datatype or language: "0" next to 0, "0"@en next to "0"
        lits = lits + [rng.choice([Literal("0"), Literal("0", lang="en"), Literal("1")])]
    return nodes, lits


def gen_data(rng, preds, nodes, lits, n_triples):
    g = rdflib.Graph()
    for _ in range(n_triples):
        s = rng.choice(nodes)
        p = URIRef(rng.choice(preds))
        r = rng.random()
        if r < 0.15:
            o = s  # self loop
        elif r < 0.3 and lits:
            o = rng.choice(lits)
        else:
            o = rng.choice(nodes)
        g.add((s, p, o))
    return g


def exn_name(e):
    """Maps an exception raised by pySHACL to the model's exn constructor (or a raw name)."""
    from pyshacl.errors import ConstraintLoadError, ReportableRuntimeError, RuleLoadError, ShapeLoadError, ValidationFailure

    if isinstance(e, ShapeLoadError):
        return "ShapeLoad"
    if isinstance(e, ConstraintLoadError):
        return "ConstraintLoad"
    if isinstance(e, RuleLoadError):
        return "RuleLoad"
    if isinstance(e, ValidationFailure):
        return "ValFailure"
    if isinstance(e, ReportableRuntimeError):
        if "too deep" in str(e.message if hasattr(e, "message") else e):
            return "TooDeep"
        return "Reportable"
    return "RAW:" + type(e).__name__
