"""C10 worker: runs a history of validate()/shacl_rules() calls and edits in ONE process ("history" mode), or a
single call in a fresh process ("oneshot" mode). Both modes use perform() and canon(); the harness compares them.

  c10_worker.py history <seed> <index> <outdir>
  c10_worker.py oneshot <call.pkl> <out.pkl>
"""
import gc
import io
import os
import pickle
import random
import re
import sys
import warnings

warnings.simplefilter("ignore")

import rdflib
from rdflib import BNode, Graph, Literal, URIRef
from rdflib.namespace import RDF, XSD

EX = rdflib.Namespace("http://ex.org/")
SH = rdflib.Namespace("http://www.w3.org/ns/shacl#")
PFX = """@prefix sh: <http://www.w3.org/ns/shacl#> . @prefix ex: <http://ex.org/> . @prefix xsd: <http://www.w3.org/2001/XMLSchema#> .
@prefix rdfs: <http://www.w3.org/2000/01/rdf-schema#> . @prefix owl: <http://www.w3.org/2002/07/owl#> .
"""

# ------------------------------------------------------------------ shapes / data families
SHAPES = {
    # results whose value nodes and source shapes are blank nodes: their descriptions appear in the report text
    "bnodes": """
ex:PS a sh:NodeShape ; sh:targetClass ex:P ;
  sh:property [ sh:path ex:addr ; sh:node [ sh:property [ sh:path ex:city ; sh:minCount 1 ; sh:datatype xsd:string ] ] ] ;
  sh:property [ sh:path ex:tag ; sh:maxCount 1 ] .
""",
    # a SPARQL-based constraint component: its validator is constructed once per (shapes graph, node)
    "component": """
ex:prefixes a owl:Ontology ; sh:declare [ sh:prefix "ex" ; sh:namespace "http://ex.org/"^^xsd:anyURI ] .
ex:Comp a sh:ConstraintComponent ; sh:parameter [ sh:path ex:limit ] ;
  sh:validator ex:CompVal .
ex:CompVal a sh:SPARQLAskValidator ; sh:prefixes ex:prefixes ; sh:message "value {$value} above {$limit}" ;
  sh:ask "ASK { FILTER ($value <= $limit) }" .
ex:CS a sh:NodeShape ; sh:targetClass ex:P ; sh:property [ sh:path ex:n ; ex:limit 5 ] .
""",
    # SHACL functions and rules (advanced)
    "advanced": """
ex:prefixes a owl:Ontology ; sh:declare [ sh:prefix "ex" ; sh:namespace "http://ex.org/"^^xsd:anyURI ] .
ex:double a sh:SPARQLFunction ; sh:parameter [ sh:path ex:op1 ; sh:datatype xsd:integer ] ; sh:returnType xsd:integer ;
  sh:prefixes ex:prefixes ; sh:select "SELECT ($op1 + $op1 AS ?result) WHERE { }" .
ex:AS a sh:NodeShape ; sh:targetClass ex:P ;
  sh:rule [ a sh:TripleRule ; sh:subject sh:this ; sh:predicate ex:marked ; sh:object ex:Yes ] ;
  sh:rule [ a sh:SPARQLRule ; sh:prefixes ex:prefixes ;
            sh:construct "CONSTRUCT { $this ex:twice ?d } WHERE { $this ex:n ?v . BIND (ex:double(?v) AS ?d) }" ] ;
  sh:sparql [ sh:prefixes ex:prefixes ; sh:message "double of {?value} too big" ;
              sh:select "SELECT $this ?value WHERE { $this ex:n ?value . FILTER (ex:double(?value) > 10) }" ] .
""",
    # function declarations of the generic kind (typed sh:SHACLFunction only; with and without a body) next to an ordinary shape
    "function_kinds": """
ex:prefixes a owl:Ontology ; sh:declare [ sh:prefix "ex" ; sh:namespace "http://ex.org/"^^xsd:anyURI ] .
ex:bare a sh:SHACLFunction ; sh:parameter [ sh:path ex:op1 ] ; sh:returnType xsd:integer .
ex:half a sh:SHACLFunction ; sh:parameter [ sh:path ex:op1 ; sh:datatype xsd:integer ] ; sh:returnType xsd:integer ;
  sh:prefixes ex:prefixes ; sh:select "SELECT ($op1 / 2 AS ?result) WHERE { }" .
ex:FK a sh:NodeShape ; sh:targetClass ex:P ; sh:property [ sh:path ex:n ; sh:maxInclusive 10 ] .
""",
    # datatypes rdflib itself has no converter for (owlrl brings its own while it runs an inference)
    "owlrl_types": """
ex:GY a sh:NodeShape ; sh:targetClass ex:P ;
  sh:property [ sh:path ex:year ; sh:datatype xsd:gYear ] ; sh:property [ sh:path ex:nm ; sh:datatype xsd:NCName ] ;
  sh:property [ sh:path ex:ym ; sh:datatype xsd:gYearMonth ; sh:maxCount 1 ] .
""",
    # literal forms whose reading depends on rdflib's global parsing switches
    "literals": """
ex:LS a sh:NodeShape ; sh:targetClass ex:P ;
  sh:property [ sh:path ex:flag ; sh:datatype xsd:boolean ; sh:in ( true false ) ] ;
  sh:property [ sh:path ex:n ; sh:hasValue 7 ] ;
  sh:property [ sh:path ex:n ; sh:maxInclusive 9 ] .
""",
}
# sh:expression is a constraint in advanced mode only: a plain call must not see it, whatever ran before
SHAPES["expression"] = """
ex:XS a sh:NodeShape ; sh:targetClass ex:P ; sh:expression [ sh:path ex:flag ] ;
  sh:property [ sh:path ex:n ; sh:maxInclusive 9 ; sh:expression [ sh:path ex:flag ] ] .
"""
# string constraints whose compiled form depends on two declarations (sh:pattern and sh:flags)
SHAPES["pattern"] = """
ex:PT a sh:NodeShape ; sh:targetClass ex:P ;
  sh:property [ sh:path ( ex:addr ex:street ) ; sh:pattern "^high" ; sh:flags "i" ] ;
  sh:property [ sh:path ex:tag ; sh:pattern "^X" ; sh:languageIn ( "en" ) ] .
"""
SHAPES["usesfn"] = """
ex:prefixes a owl:Ontology ; sh:declare [ sh:prefix "ex" ; sh:namespace "http://ex.org/"^^xsd:anyURI ] .
ex:US a sh:NodeShape ; sh:targetClass ex:P ;
  sh:sparql [ sh:prefixes ex:prefixes ; sh:message "someone else's function answered for {?value}" ;
              sh:select "SELECT $this ?value WHERE { $this ex:n ?value . FILTER (ex:double(?value) > 10) }" ] .
"""
BAD_SHAPES = {
    "unparsable": "ex:S a sh:NodeShape ; sh:targetClass",
    "shape_load": "ex:S a sh:NodeShape ; sh:targetClass ex:P ; sh:property [ sh:path \"lit\" ; sh:minCount 1 ] .",
    "constraint_load": "ex:S a sh:NodeShape ; sh:targetClass ex:P ; sh:property [ sh:path ex:n ; sh:minCount \"many\" ] .",
    "rule_load": "ex:S a sh:NodeShape ; sh:targetClass ex:P ; sh:rule [ a sh:TripleRule ; sh:predicate ex:q ] .",
    "function_load": """ex:f a sh:SPARQLFunction ; sh:parameter [ sh:path ex:op1 ] ; sh:select "SELECT nonsense" .
ex:S a sh:NodeShape ; sh:targetClass ex:P ; sh:property [ sh:path ex:n ; sh:minCount 1 ] .""",
    "forbidden_sparql": """ex:prefixes a owl:Ontology ; sh:declare [ sh:prefix "ex" ; sh:namespace "http://ex.org/"^^xsd:anyURI ] .
ex:S a sh:NodeShape ; sh:targetClass ex:P ; sh:sparql [ sh:prefixes ex:prefixes ;
  sh:select "SELECT $this WHERE { $this ex:n ?v . MINUS { $this ex:tag ?v } }" ] .""",
    "rule_runtime": """ex:prefixes a owl:Ontology ; sh:declare [ sh:prefix "ex" ; sh:namespace "http://ex.org/"^^xsd:anyURI ] .
ex:g a sh:SPARQLFunction ; sh:parameter [ sh:path ex:op1 ] ; sh:returnType xsd:integer ; sh:prefixes ex:prefixes ;
  sh:select "SELECT ($op1 AS ?result) WHERE { }" .
ex:S a sh:NodeShape ; sh:targetClass ex:P ;
  sh:rule [ a sh:TripleRule ; sh:subject sh:this ; sh:predicate ex:q ; sh:object [ ex:nosuchfunction ( sh:this ) ] ] .""",
    "meta_reject": "ex:S a sh:NodeShape ; sh:targetClass ex:P ; sh:property [ sh:path ex:n ; sh:minCount 1 ; sh:minCount 2 ; sh:nodeKind ex:NotAKind ] .",
}
DATA = """
ex:a a ex:P ; ex:addr [ ex:street "High St" ; ex:zip 12 ] ; ex:tag "x", "y" ; ex:n 7 ; ex:flag true .
ex:b a ex:P ; ex:addr [ ex:city "Leeds" ] ; ex:n 3 ; ex:flag false .
ex:c a ex:P ; ex:addr [ ex:city 5 ; ex:street "Low Rd" ] ; ex:n 12 .
"""
DATA_TEXT_LITERALS = """
ex:a a ex:P ; ex:n "07"^^xsd:integer ; ex:flag "1"^^xsd:boolean .
ex:b a ex:P ; ex:n 7 ; ex:flag "TRUE"^^xsd:boolean .
ex:c a ex:P ; ex:n "7.0"^^xsd:decimal , "+7"^^xsd:integer ; ex:flag "0"^^xsd:boolean .
"""
ONT = "ex:Q rdfs:subClassOf ex:P . ex:d a ex:Q ; ex:n 40 ."


def relabel(g):
    """blank nodes get labels derived from the path that leads to them from an IRI, so that two graphs parsed
    from similar text use the same blank node identifiers (as a caller re-loading a file with labelled nodes would)"""
    names, frontier = {}, []
    for s_, p_, o_ in sorted(g, key=lambda t: (str(t[0]), str(t[1]), str(t[2]))):
        if isinstance(o_, BNode) and not isinstance(s_, BNode) and o_ not in names:
            names[o_] = "%s_%s" % (str(s_).rsplit("/", 1)[-1].rsplit("#", 1)[-1], str(p_).rsplit("/", 1)[-1].rsplit("#", 1)[-1])
            frontier.append(o_)
    while frontier:
        b = frontier.pop()
        for p_, o_ in sorted(g.predicate_objects(b), key=lambda t: (str(t[0]), str(t[1]))):
            if isinstance(o_, BNode) and o_ not in names:
                names[o_] = names[b] + "_" + str(p_).rsplit("/", 1)[-1].rsplit("#", 1)[-1]
                frontier.append(o_)
    seen = {}
    for b in list(names):
        n = names[b]
        seen[n] = seen.get(n, 0) + 1
        names[b] = BNode("%s%d" % (n, seen[n]))
    for t in list(g):
        t2 = tuple(names.get(x, x) for x in t)
        if t2 != t:
            g.remove(t)
            g.add(t2)
    return g


def parse(text, into=None):
    g = Graph() if into is None else into
    g.parse(data=PFX + text, format="turtle")
    return relabel(g)


# ------------------------------------------------------------------ performing one call
def globals_snapshot():
    from rdflib.plugins.sparql import operators
    from rdflib.term import _toPythonMapping
    f = _toPythonMapping[XSD.boolean]
    behaviour = []
    for lex in ("true", "1", "TRUE", "0", "false", "x"):
        try:
            behaviour.append(repr(f(lex)))
        except Exception as e:
            behaviour.append(type(e).__name__)
    lit = Literal("01", datatype=XSD.integer)
    return {
        "NORMALIZE_LITERALS": rdflib.NORMALIZE_LITERALS,
        "boolean_parser": getattr(f, "__qualname__", repr(f)),
        "boolean_behaviour": behaviour,
        "custom_functions": sorted(str(k) for k in operators._CUSTOM_FUNCTIONS),
        "literal_01": str(lit),
        "literal_bool_1": repr(Literal("1", datatype=XSD.boolean).value),
    }


def canon_graph(g):
    from rdflib.compare import to_canonical_graph
    if isinstance(g, (rdflib.Dataset, rdflib.ConjunctiveGraph)):
        flat = Graph()
        for s, p, o, _ in g.quads((None, None, None, None)):
            flat.add((s, p, o))
        g = flat
    return sorted("%s %s %s" % (s.n3(), p.n3(), o.n3()) for s, p, o in to_canonical_graph(g))


def canon_text(t):
    parts = re.split(r"\n(?=Constraint Violation in|Validation Result in)", t)
    head, rest = parts[0], sorted(parts[1:])
    return [head] + rest


def perform(spec):
    """spec: dict(api, data, data_format, shapes, shapes_format, ont, options). Graph arguments are objects or text."""
    import pyshacl
    kw = dict(spec["options"])
    if "ont_graph_url" in kw:
        kw["ont_graph"] = kw.pop("ont_graph_url")
    if spec.get("data_format"):
        kw["data_graph_format"] = spec["data_format"]
    if spec.get("shapes_format"):
        kw["shacl_graph_format"] = spec["shapes_format"]
    if spec.get("ont") is not None:
        kw["ont_graph"] = spec["ont"]
        if isinstance(spec["ont"], str):
            kw["ont_graph_format"] = "turtle"
    try:
        if spec["api"] == "validate":
            conforms, rg, text = pyshacl.validate(spec["data"], shacl_graph=spec["shapes"], **kw)
            if isinstance(rg, Graph):
                return ("ok", conforms, canon_graph(rg), canon_text(text))
            return ("ok", conforms, repr(rg)[:200], canon_text(text))
        out = pyshacl.shacl_rules(spec["data"], shacl_graph=spec["shapes"], **kw)
        return ("ok", canon_graph(out))
    except Exception as e:
        msg = re.sub(r"0x[0-9a-f]+", "0x?", str(e))
        msg = re.sub(r"\b_:[A-Za-z0-9]+|\bN[0-9a-f]{32}\b", "_:b", msg)
        return ("exc", type(e).__name__, msg[:300])


# ------------------------------------------------------------------ histories
class Injected(Exception):
    pass


INJECT_POINTS = [("pyshacl.validator", "apply_rules"), ("pyshacl.validator", "apply_functions"),
                 ("pyshacl.rule_expand_runner", "apply_rules"), ("pyshacl.rule_expand_runner", "apply_functions"),
                 ("pyshacl.entrypoints", "load_from_source#2"), ("pyshacl.shape", "Shape.validate")]


class inject:
    """the named callee does its work and then raises (the fault model of coq/Mini/PyMini.v)"""

    def __init__(self, point):
        self.point = point

    def __enter__(self):
        import importlib
        modname, name = self.point
        self.mod = importlib.import_module(modname)
        nth = 1
        if "#" in name:
            name, n = name.split("#")
            nth = int(n)
        holder, attr = self.mod, name
        if "." in name:
            cls, attr = name.split(".")
            holder = getattr(self.mod, cls)
        self.holder, self.attr, self.orig = holder, attr, holder.__dict__[attr] if isinstance(holder, type) else getattr(holder, attr)
        orig, count = getattr(holder, attr), [0]

        def wrapper(*a, **k):
            count[0] += 1
            r = orig(*a, **k)
            if count[0] == nth:
                raise Injected("injected after %s" % name)
            return r

        setattr(holder, attr, wrapper)
        return self

    def __exit__(self, *exc):
        setattr(self.holder, self.attr, self.orig)
        return False


def failing_call(rng, api="validate"):
    """ops of one call that fails: naturally or by injection"""
    if rng.random() < 0.5:
        kind = rng.choice(list(BAD_SHAPES))
        o2 = {"advanced": True} if kind in ("rule_load", "function_load", "rule_runtime") else {}
        if kind == "meta_reject" or rng.random() < 0.35:
            o2["meta_shacl"] = True      # the SHACL-SHACL pre-check loads the shapes document by itself: it can fail there, too
        return [("call", "validate", ("slot", "D0"), ("text", PFX + BAD_SHAPES[kind]), None, o2, None)]
    point = rng.choice(INJECT_POINTS)
    api2 = "rules" if "rule_expand" in point[0] else "validate"
    return [("call", api2, ("slot", "D0"), ("text", PFX + SHAPES["advanced"]), None, {"advanced": True} if api2 == "validate" else {}, point)]


def gen_themed(rng, theme):
    ops = [("alloc", "D0", "data", DATA)]
    plain = lambda: ("call", "validate", ("slot", "D0"), ("slot", "S0"), None, {}, None)
    # the first call over the shared objects either succeeds or fails part-way (after some results were rendered)
    first = lambda: plain() if rng.random() < 0.5 else ("call", "validate", ("slot", "D0"), ("slot", "S0"), None, {},
                                                        ("pyshacl.shape", "Shape.validate#%d" % rng.choice([1, 2, 3, 4])))
    maybe_fail = lambda: failing_call(rng) if rng.random() < 0.4 else []
    if theme == "stale_data":
        ops.append(("alloc", "S0", "shapes", SHAPES["bnodes"]))
        if rng.random() < 0.4:
            # the caller's own graph object is expanded in place by RDFS pre-inference, edited, and validated again with the same options:
            # what the edit entails (a new instance of the target class through rdfs:domain) has to be inferred again
            io_ = {"inplace": True, "inference": "rdfs"}
            ops.append(("call", "validate", ("slot", "D0"), ("slot", "S0"), None, dict(io_), None))
            ops.append(("edit_data", "domain", rng.randrange(1000)))
            if rng.random() < 0.5:
                ops.append(("edit_data", rng.choice(["city", "street", "subclass"]), rng.randrange(1000)))
            ops += maybe_fail()
            ops.append(("call", "validate", ("slot", "D0"), ("slot", "S0"), None, dict(io_), None))
            return ops
        ops.append(first())
        ops += [("edit_data", rng.choice(["city", "street", "drop_addr", "subclass", "subclass"]), rng.randrange(1000)) for _ in range(rng.choice([1, 2, 3]))]
        if rng.random() < 0.7:
            ops.append(("edit_data", "subclass", 2 * rng.randrange(500)))    # a new subclass of the target class, with an instance
        ops += maybe_fail()
        ops.append(plain())
    elif theme == "stale_shapes":
        ops.append(("alloc", "S0", "shapes", SHAPES["bnodes"]))
        ops.append(first())
        ops += [("edit_shapes", rng.choice(["mincount", "datatype"]), rng.randrange(1000)) for _ in range(rng.choice([1, 2]))]
        ops += maybe_fail()
        ops.append(plain())
    elif theme == "stale_validator":
        ops.append(("alloc", "S0", "shapes", SHAPES["component"]))
        ops.append(first())
        ops += [("edit_shapes", rng.choice(["ask", "message", "limit"]), rng.randrange(1000)) for _ in range(rng.choice([1, 2]))]
        ops += maybe_fail()
        ops.append(plain())
    elif theme == "reuse":
        # a graph is collected and another one with the same node names is loaded, preferably at its address
        if rng.random() < 0.5:
            ops.append(("alloc", "S0", "shapes", SHAPES["component"]))
            ops.append(first())
            ops.append(("realloc", "S0", "shapes", SHAPES["component"].replace("<=", rng.choice([">=", "!=", "<"])).replace("above", "not ok against")))
        else:
            ops.append(("alloc", "S0", "shapes", SHAPES["bnodes"]))
            ops.append(plain())
            ops.append(("realloc", "D0", "data", DATA.replace("High St", "Side St %d" % rng.randrange(100)).replace("Leeds", "York")))
            if rng.random() < 0.5:
                ops.append(("realloc", "S0", "shapes", SHAPES["bnodes"].replace("sh:minCount 1", "sh:minCount 2")))
        ops += maybe_fail()
        ops.append(plain())
    elif theme == "modes":
        # the same shapes in advanced and in plain mode, in either order, maybe with a failure in between
        ops.append(("alloc", "S0", "shapes", SHAPES[rng.choice(["expression", "expression", "component", "bnodes"])]))
        if rng.random() < 0.3:
            ops.append(("call", "validate", ("slot", "D0"), ("text", PFX + SHAPES["advanced"]), None, {"advanced": True}, None))
        for _ in range(rng.choice([2, 3])):
            ops.append(("call", "validate", ("slot", "D0"), ("slot", "S0") if rng.random() < 0.7 else ("text", PFX + SHAPES["expression"]), None, {"advanced": rng.random() < 0.5}, None))
            ops += maybe_fail() if rng.random() < 0.3 else []
        ops.append(plain())
    elif theme == "pattern":
        # the same pattern text validated with different flags, on the same and on new shapes graph objects
        ops.append(("alloc", "S0", "shapes", SHAPES["pattern"]))
        ops.append(first())
        for _ in range(rng.choice([1, 2, 3])):
            r_ = rng.random()
            if r_ < 0.5:
                ops.append(("edit_shapes", "flags", rng.randrange(1000)))
            elif r_ < 0.7:
                ops.append(("edit_shapes", "pattern", rng.randrange(1000)))
            else:
                ops.append(("realloc", "S0", "shapes", SHAPES["pattern"].replace('sh:flags "i"', rng.choice(['', 'sh:flags "x"', 'sh:flags "i"']).strip() or 'sh:minLength 1')))
            ops += maybe_fail() if rng.random() < 0.2 else []
            ops.append(plain() if rng.random() < 0.7 else ("call", "validate", ("slot", "D0"), ("text", PFX + SHAPES["pattern"].replace(' ; sh:flags "i"', "")), None, {}, None))
    elif theme == "datatype_table":
        # a call that runs an RDFS / OWL-RL pre-inference (owlrl installs its own literal converters while it expands), then a call that
        # PARSES literals of datatypes only owlrl knows how to check: they are read as a fresh process reads them
        odd = DATA + 'ex:a ex:year "20x0"^^xsd:gYear ; ex:nm "not an nc name"^^xsd:NCName ; ex:ym "2020-13"^^xsd:gYearMonth .\nex:b ex:year "1999"^^xsd:gYear ; ex:nm "fine"^^xsd:NCName .\n'
        ops.append(("alloc", "S0", "shapes", SHAPES["owlrl_types"]))
        inf_ = rng.choice(["rdfs", "owlrl", "both"])
        if rng.random() < 0.5:
            ops.append(("call", "validate", ("slot", "D0"), ("slot", "S0"), None, {"inference": inf_}, None))
        else:
            ops.append(("alloc", "S1", "shapes", SHAPES["advanced"]))
            ops.append(("call", "rules", ("slot", "D0"), ("slot", "S1"), None, {"inference": inf_}, None))
        ops += maybe_fail()
        ops.append(("call", "validate", ("text", PFX + odd), ("slot", "S0"), None, {}, None))
        if rng.random() < 0.5:
            ops.append(("call", "validate", ("text", PFX + odd), ("text", PFX + SHAPES["owlrl_types"]), None, {"inference": rng.choice(["none", inf_])}, None))
    elif theme == "function_params":
        # the SAME function IRI declared with other parameter lists (orders swapped, no orders, a third optional-looking name) in
        # successive calls: each call binds the arguments by the declaration it was given
        def fp_shapes(decl):
            return ('ex:prefixes a owl:Ontology ; sh:declare [ sh:prefix "ex" ; sh:namespace "http://ex.org/"^^xsd:anyURI ] .\n'
                    'ex:diff a sh:SPARQLFunction ; sh:parameter %s ; sh:returnType xsd:integer ; sh:prefixes ex:prefixes ; sh:select "SELECT (%s AS ?result) WHERE { }" .\n'
                    'ex:FP a sh:NodeShape ; sh:targetClass ex:P ; sh:sparql [ sh:prefixes ex:prefixes ; sh:message "diff of {?value}" ;\n'
                    '  sh:select "SELECT $this ?value WHERE { $this ex:n ?value . FILTER (ex:diff(?value, 4) > 0) }" ] ;\n'
                    '  sh:rule [ a sh:SPARQLRule ; sh:prefixes ex:prefixes ; sh:construct "CONSTRUCT { $this ex:d ?d } WHERE { $this ex:n ?v . BIND (ex:diff(?v, 4) AS ?d) }" ] .\n' % decl)
        decls = [('[ sh:path ex:op1 ; sh:order 1 ] , [ sh:path ex:op2 ; sh:order 2 ]', "$op1 - $op2"),
                 ('[ sh:path ex:op1 ; sh:order 2 ] , [ sh:path ex:op2 ; sh:order 1 ]', "$op1 - $op2"),
                 ('[ sh:path ex:op1 ] , [ sh:path ex:op2 ]', "$op1 - $op2"),
                 ('[ sh:path ex:zz ] , [ sh:path ex:aa ]', "$zz - $aa"),
                 ('[ sh:path ex:zz ; sh:order 0 ] , [ sh:path ex:aa ; sh:order 5 ]', "$zz - $aa")]
        picks = rng.sample(decls, 3)
        alloced_ = False
        for k_, dcl in enumerate(picks + picks[:1]):
            how = rng.random()
            if how < 0.5:
                ops.append(("realloc" if alloced_ else "alloc", "S0", "shapes", fp_shapes(dcl)))
                alloced_ = True
                sref = ("slot", "S0")
            else:
                sref = ("text", PFX + fp_shapes(dcl))
            api_ = rng.choice(["validate", "validate", "rules"])
            ops.append(("call", api_, ("slot", "D0"), sref, None, {"advanced": True} if api_ == "validate" else {}, None))
            ops += maybe_fail() if rng.random() < 0.2 else []
    elif theme == "function_kinds":
        # a call whose shapes graph declares functions of the generic kind, then (maybe after a failure) a call that USES SPARQL functions
        ops.append(("alloc", "S0", "shapes", SHAPES["function_kinds"]))
        api_ = rng.choice(["validate", "validate", "rules"])
        ops.append(("call", api_, ("slot", "D0"), ("slot", "S0"), None, {"advanced": True} if api_ == "validate" else {}, None))
        ops += maybe_fail()
        ops.append(("alloc", "S1", "shapes", SHAPES["advanced"]))
        ops.append(("call", "validate", ("slot", "D0"), ("slot", "S1"), None, {"advanced": True}, None))
        if rng.random() < 0.5:
            ops.append(("call", "rules", ("slot", "D0"), ("slot", "S1"), None, {}, None))
    elif theme == "baked":
        # documents that ship with pySHACL (loaded from its own copies, no network): a call that expands one of them
        # (inference, rules, ontology mix-in) must not leave the expansion behind for the next call
        url = rng.choice(["http://www.w3.org/ns/shacl", "http://www.w3.org/ns/shacl.ttl", "http://www.w3.org/ns/shacl-shacl"])
        small = ("ex:BS a sh:NodeShape ; sh:targetSubjectsOf rdf:type ; sh:property [ sh:path rdf:type ; sh:maxCount 1 ] .\n"
                 "ex:BR a sh:NodeShape ; sh:targetClass owl:Ontology ; sh:rule [ a sh:TripleRule ; sh:subject sh:this ; sh:predicate rdf:type ; sh:object rdfs:Class ] .")
        ops.append(("alloc", "S0", "shapes", "@prefix rdf: <http://www.w3.org/1999/02/22-rdf-syntax-ns#> .\n" + small))
        seq = [("call", "validate", ("url", url), ("slot", "S0"), None, {"inference": "rdfs"}, None),
               ("call", "validate", ("url", url), ("slot", "S0"), None, {"advanced": True}, None),
               ("call", "rules", ("url", url), ("slot", "S0"), None, {}, None),
               ("call", "validate", ("slot", "D0"), ("slot", "S0"), None, {"ont_graph_url": url, "inference": "rdfs"}, None)]
        ops.append(rng.choice(seq))
        if rng.random() < 0.5:
            ops.append(rng.choice(seq))
        ops.append(("call", "validate", ("url", url), ("slot", "S0"), None, {}, None))
    elif theme == "imports":
        # documents that owl:import one another, loaded with do_owl_imports: what one call imported must not be
        # remembered by the next (a document that was an importer before is imported again)
        ops.append(("write", "vocab.ttl", PFX + "ex:P a rdfs:Class . ex:Q a rdfs:Class ; rdfs:subClassOf ex:P ."))
        ops.append(("write", "common.ttl", PFX + "<{DIR}/common.ttl> a owl:Ontology ; owl:imports <{DIR}/vocab.ttl> .\n"
                    "ex:CommonShape a sh:NodeShape ; sh:targetClass ex:P ; sh:property [ sh:path ex:n ; sh:maxInclusive 9 ] ."))
        ops.append(("write", "other.ttl", PFX + "<{DIR}/other.ttl> a owl:Ontology ; owl:imports <{DIR}/common.ttl> .\n"
                    "ex:OtherShape a sh:NodeShape ; sh:targetClass ex:P ; sh:property [ sh:path ex:tag ; sh:maxCount 1 ] ."))
        project = PFX + "<urn:project> a owl:Ontology ; owl:imports <{DIR}/%s> .\nex:ProjShape a sh:NodeShape ; sh:targetClass ex:P ; sh:property [ sh:path ex:flag ; sh:minCount 1 ] ."
        imp = {"do_owl_imports": True}
        calls = [("call", "validate", ("slot", "D0"), ("path", "common.ttl"), None, dict(imp), None),
                 ("call", "validate", ("slot", "D0"), ("text", project % "common.ttl"), None, dict(imp), None),
                 ("call", "validate", ("slot", "D0"), ("path", "other.ttl"), None, dict(imp), None),
                 ("call", "validate", ("slot", "D0"), ("text", project % "other.ttl"), None, dict(imp), None),
                 ("call", "validate", ("slot", "D0"), ("text", project % "common.ttl"), None, {}, None)]
        for _ in range(rng.choice([2, 3, 4])):
            ops.append(rng.choice(calls))
            ops += maybe_fail() if rng.random() < 0.25 else []
        ops.append(rng.choice(calls[:4]))
    elif theme == "globals":
        # after a failure: literals read from text, and a query naming a function nobody declared in this call
        ops += failing_call(rng)
        if rng.random() < 0.5:
            ops.append(("alloc", "S0", "shapes", SHAPES["literals"]))
            ops.append(("call", "validate", ("text", PFX + DATA_TEXT_LITERALS), ("slot", "S0") if rng.random() < 0.5 else ("text", PFX + SHAPES["literals"]), None, {}, None))
        else:
            ops.append(("alloc", "S0", "shapes", SHAPES["usesfn"]))
            ops.append(("call", "validate", ("slot", "D0"), ("slot", "S0"), None, {"advanced": rng.random() < 0.5}, None))
    return ops


THEMES = ["stale_data", "stale_shapes", "stale_validator", "reuse", "globals", "modes", "imports", "pattern", "baked", "function_kinds", "datatype_table", "function_params", "mixed", "mixed"]


def gen_history(seed, index):
    """a list of ops; graphs live in named slots of the history process"""
    rng = random.Random("%s/C10/%d" % (seed, index))
    theme = THEMES[index % len(THEMES)]
    if theme != "mixed":
        return gen_themed(rng, theme)
    ops = []
    fams = list(SHAPES)
    n_calls = rng.choice([2, 3, 3, 4, 5])
    ops.append(("alloc", "D0", "data", DATA))
    fam0 = rng.choice(fams)
    ops.append(("alloc", "S0", "shapes", SHAPES[fam0]))
    state = {"S0": fam0}
    for c in range(n_calls):
        r = rng.random()
        last = c == n_calls - 1
        fam = state["S0"]
        opts = {"advanced": fam == "advanced" or rng.random() < 0.3}
        if rng.random() < 0.25:
            opts["inference"] = rng.choice(["rdfs", "none"])
        if rng.random() < 0.15:
            opts["meta_shacl"] = True
        if rng.random() < 0.2:
            opts["abort_on_first"] = True
        api = "rules" if (fam == "advanced" and rng.random() < 0.3) else "validate"
        if api == "rules":
            opts = {k: v for k, v in opts.items() if k in ("inference",)}
            if rng.random() < 0.5:
                opts["iterate_rules"] = True
        if not last and r < 0.4:
            # a call that fails by itself
            kind = rng.choice(list(BAD_SHAPES) + ["bad_data", "bad_ont"])
            if kind == "bad_data":
                ops.append(("call", api, ("text", PFX + "ex:a ex:p ;;; ."), ("slot", "S0"), None, opts, None))
            elif kind == "bad_ont":
                ops.append(("call", api, ("slot", "D0"), ("slot", "S0"), "ex:Q rdfs:subClassOf", opts, None))
            else:
                o2 = dict(opts)
                if kind in ("rule_load", "function_load", "rule_runtime"):
                    o2["advanced"] = True
                if kind == "meta_reject" or rng.random() < 0.3:
                    o2["meta_shacl"] = True
                as_text = rng.random() < 0.5
                if as_text:
                    ops.append(("call", api, ("slot", "D0"), ("text", PFX + BAD_SHAPES[kind]), None, o2, None))
                elif kind != "unparsable":
                    ops.append(("alloc", "SX", "shapes", BAD_SHAPES[kind]))
                    ops.append(("call", api, ("slot", "D0"), ("slot", "SX"), None, o2, None))
                    ops.append(("drop", "SX"))
        elif not last and r < 0.6:
            # a failure injected after an effectful step of the pipeline (shapes with functions and rules)
            point = rng.choice(INJECT_POINTS)
            api2 = "rules" if "rule_expand" in point[0] else ("validate" if "validator" in point[0] else api)
            o2 = {"advanced": True} if api2 == "validate" else {}
            if "inference" in opts:
                o2["inference"] = opts["inference"]
            if fam == "advanced" and not point[1].startswith("load_from_source") and rng.random() < 0.5:
                sh = ("slot", "S0")
            else:
                sh = ("text", PFX + SHAPES["advanced"])
            ops.append(("call", api2, ("slot", "D0"), sh, None, o2, point))
        else:
            how = rng.random()
            if fam == "literals" and how < 0.6:
                data = ("text", PFX + DATA_TEXT_LITERALS)
            elif how < 0.15:
                data = ("text", PFX + DATA)
            else:
                data = ("slot", "D0")
            shp = ("text", PFX + SHAPES[fam]) if rng.random() < 0.2 else ("slot", "S0")
            ont = ONT if rng.random() < 0.15 else None
            ops.append(("call", api, data, shp, PFX + ont if ont else None, opts, None))
        if last:
            break
        # between calls: edits, collections, allocations
        for _ in range(rng.choice([0, 1, 1, 2])):
            e = rng.random()
            if e < 0.35:
                ops.append(("edit_data", rng.choice(["city", "street", "n", "tag", "flag", "drop_addr", "subclass"]), rng.randrange(1000)))
            elif e < 0.7:
                ops.append(("edit_shapes", rng.choice(["mincount", "ask", "message", "limit", "select", "datatype", "hasvalue", "flags", "pattern"]), rng.randrange(1000)))
            elif e < 0.85:
                # the shapes graph object is dropped and another one (maybe at the same address) takes its place
                state["S0"] = rng.choice(fams)
                ops.append(("realloc", "S0", "shapes", SHAPES[state["S0"]]))
            else:
                ops.append(("realloc", "D0", "data", DATA.replace("High St", "Side St %d" % rng.randrange(100)).replace("12 ;", "%d ;" % rng.randrange(100))))
    return ops


def edit_data(g, what, k):
    if what == "drop_addr":
        for s, o in list(g.subject_objects(EX.addr))[:1]:
            for t in list(g.triples((o, None, None))):
                g.remove(t)
            g.add((o, EX.note, Literal("emptied %d" % k)))
        return
    if what in ("city", "street"):
        p = EX[what]
        nodes = sorted(set(g.objects(None, EX.addr)), key=str)
        if nodes:
            b = nodes[k % len(nodes)]
            for t in list(g.triples((b, p, None))):
                g.remove(t)
            if k % 3:
                g.add((b, p, Literal("%s %d" % (what, k))))
        return
    if what == "domain":
        # an instance of the target class by entailment only: ex:teaches rdfs:domain ex:P, and somebody who teaches
        from rdflib.namespace import RDFS
        e_ = EX["e%d" % (k % 2)]
        g.add((EX.teaches, RDFS.domain, EX.P))
        g.add((e_, EX.teaches, EX.course))
        g.add((e_, EX.tag, Literal("p")))
        g.add((e_, EX.tag, Literal("q")))
        return
    if what == "subclass":
        # the class hierarchy of the data changes under the same graph object: a further subclass of the target class with an
        # instance of its own appears, or disappears again
        from rdflib.namespace import RDFS
        g.add((EX.d, RDF.type, EX.Q))
        g.add((EX.d, EX.n, Literal(40 + k % 3)))
        g.add((EX.d, EX.tag, Literal("p")))
        g.add((EX.d, EX.tag, Literal("q")))
        if (EX.Q, RDFS.subClassOf, EX.P) in g and k % 2:
            g.remove((EX.Q, RDFS.subClassOf, EX.P))
        else:
            g.add((EX.Q, RDFS.subClassOf, EX.P))
        return
    subj = [EX.a, EX.b, EX.c][k % 3]
    if what == "n":
        g.remove((subj, EX.n, None))
        g.add((subj, EX.n, Literal(k % 15)))
    elif what == "tag":
        g.remove((subj, EX.tag, None))
        for i in range(k % 3):
            g.add((subj, EX.tag, Literal("t%d" % i)))
    elif what == "flag":
        g.remove((subj, EX.flag, None))
        # only lexical forms whose in-memory Literal is a function of (lexical form, datatype): rdflib turns "yes"^^xsd:boolean into
        # an object that prints as "false" but remembers being ill-typed, and that state does not survive the pickle that
        # hands the call to the fresh process (the two calls would not have equal arguments)
        g.add((subj, EX.flag, Literal(["true", "1", "false", "0"][k % 4], datatype=XSD.boolean)))


def edit_shapes(g, what, k):
    def replace(s, p, o):
        g.remove((s, p, None))
        g.add((s, p, o))
    if what == "mincount":
        for s in list(g.subjects(SH.minCount, None)):
            replace(s, SH.minCount, Literal(k % 3))
    elif what == "datatype":
        for s in list(g.subjects(SH.datatype, None)):
            if (s, SH.path, EX.city) in g:
                replace(s, SH.datatype, [XSD.string, XSD.integer][k % 2])
    elif what == "ask":
        for s in list(g.subjects(SH.ask, None)):
            replace(s, SH.ask, Literal("ASK { FILTER ($value %s $limit) }" % ["<=", ">=", "!=", "<"][k % 4]))
    elif what == "message":
        for s in list(g.subjects(SH.message, None)):
            replace(s, SH.message, Literal("edited message %d for {$value}" % k))
    elif what == "limit":
        for s in list(g.subjects(EX.limit, None)):
            replace(s, EX.limit, Literal(k % 14))
    elif what == "select":
        for s in list(g.subjects(SH.select, None)):
            if (None, SH.sparql, s) in g:
                replace(s, SH.select, Literal("SELECT $this ?value WHERE { $this ex:n ?value . FILTER (ex:double(?value) > %d) }" % (k % 30)))
    elif what == "hasvalue":
        for s in list(g.subjects(SH.hasValue, None)):
            replace(s, SH.hasValue, Literal(k % 9))
    elif what == "flags":
        # the same sh:pattern text with other (or no) sh:flags
        for s in list(g.subjects(SH.pattern, None)):
            g.remove((s, SH.flags, None))
            f = ["", "i", "x", "is"][k % 4]
            if f:
                g.add((s, SH.flags, Literal(f)))
    elif what == "pattern":
        for s in list(g.subjects(SH.pattern, None)):
            replace(s, SH.pattern, Literal(["^high", "^h.gh", "st$", "^HIGH"][k % 4]))


def resolve(slots, arg, outdir=None):
    if arg[0] == "slot":
        return slots[arg[1]]
    if arg[0] == "path":
        return os.path.join(outdir, arg[1])          # a document written by an earlier ("write", name, text) op
    return arg[1].replace("{DIR}", "file://" + outdir) if outdir else arg[1]


def run_history(seed, index, outdir):
    ops = gen_history(seed, index)
    slots, addresses, reused = {}, {}, 0
    base = globals_snapshot()
    ncall = 0
    log = []
    for op in ops:
        if op[0] in ("alloc", "realloc"):
            name = op[1]
            if op[0] == "realloc" and name in slots:
                old = id(slots[name])
                del slots[name]
                gc.collect()
                addresses[old] = True
            # allocation is adversarial: among a batch of new objects prefer one at a formerly used address
            cands = [Graph() for _ in range(64)]
            g = next((c for c in cands if id(c) in addresses), cands[0])
            del cands
            parse(op[3], into=g)
            if id(g) in addresses:
                reused += 1
            slots[name] = g
        elif op[0] == "write":
            with open(os.path.join(outdir, op[1]), "w") as fh:
                fh.write(op[2].replace("{DIR}", "file://" + outdir))
        elif op[0] == "drop":
            if op[1] in slots:
                addresses[id(slots[op[1]])] = True
                del slots[op[1]]
                gc.collect()
        elif op[0] == "edit_data":
            edit_data(slots["D0"], op[1], op[2])
        elif op[0] == "edit_shapes":
            edit_shapes(slots["S0"], op[1], op[2])
        elif op[0] == "call":
            _, api, data, shapes, ont, opts, point = op
            spec = {"api": api, "data": resolve(slots, data, outdir), "data_format": "turtle" if data[0] == "text" else None,
                    "shapes": resolve(slots, shapes, outdir), "shapes_format": "turtle" if shapes[0] == "text" else None,
                    "ont": ont, "options": opts}
            with open(os.path.join(outdir, "call_%d.pkl" % ncall), "wb") as fh:
                pickle.dump({"spec": spec, "injected": point}, fh)
            if point is not None:
                with inject(point):
                    res = perform(spec)
            else:
                res = perform(spec)
            log.append({"call": ncall, "injected": point, "result": res, "globals_after": globals_snapshot()})
            ncall += 1
            spec = data = shapes = None   # the history holds graph objects only in its slots
    with open(os.path.join(outdir, "long.pkl"), "wb") as fh:
        pickle.dump({"ops": [repr(o)[:400] for o in ops], "log": log, "globals_before": base, "address_reuse": reused}, fh)


def main():
    mode = sys.argv[1]
    if mode == "history":
        run_history(sys.argv[2], int(sys.argv[3]), sys.argv[4])
    elif mode == "oneshot":
        with open(sys.argv[2], "rb") as fh:
            d = pickle.load(fh)
        before = globals_snapshot()
        res = perform(d["spec"])
        with open(sys.argv[3], "wb") as fh:
            pickle.dump({"result": res, "globals_before": before, "globals_after": globals_snapshot()}, fh)


if __name__ == "__main__":
    main()
