"""Tie B for coq/Sparql/LocalName.v: SHACLParameter.localname of /repo against the model on random (ASCII) parameter IRIs."""
from rdflib import URIRef

from . import framework as F

PREAMBLE = ("From Coq Require Import List String Ascii Bool.\nFrom Verif Require Import Sparql.LocalName.\nImport ListNotations.\nOpen Scope string_scope.\n")
PIECES = ["http:", "urn:", "/", "//", "#", "ex.org", "ns", "params", "a", "maxLen", "x1", "-", ".", "?q=1", "%20", "arg", "#frag", "/p/q", "1", "_"]


def coq_str(s):
    return '"' + s.replace('"', '""') + '"'


class _Stub:
    def __init__(self, p):
        self._p = p

    def path(self):
        return self._p


def run(rng, n):
    from pyshacl.errors import ReportableRuntimeError
    from pyshacl.parameter import SHACLParameter
    getter = SHACLParameter.localname.fget
    bodies, meta, fails = [], [], []
    stats = {"localname_cases": 0, "localname_hash_iris": 0, "localname_slash_iris": 0, "localname_errors": 0}
    for i in range(n):
        r = rng.random()
        if r < 0.3:
            iri = rng.choice(["http://ex.org/ns#", "http://example.org/params#", "urn:x#", "http://a/b/c#"]) + "".join(rng.choice(PIECES) for _ in range(rng.randint(0, 3)))
        elif r < 0.6:
            iri = rng.choice(["http://ex.org/", "http://example.org/params/", "urn:x/", "http://a/b/c/"]) + "".join(rng.choice(["a", "maxLen", "x1", "-", ".", "arg", "1", "_"]) for _ in range(rng.randint(0, 3)))
        else:
            iri = "".join(rng.choice(PIECES) for _ in range(rng.randint(0, 6)))
        stats["localname_hash_iris"] += 1 if "#" in iri else 0
        stats["localname_slash_iris"] += 1 if "#" not in iri and "/" in iri else 0
        try:
            got = str(getter(_Stub(URIRef(iri))))
            obs = "(Some %s)" % coq_str(got)
        except ReportableRuntimeError:
            got, obs = None, "None"
            stats["localname_errors"] += 1
        except Exception as e:
            fails.append({"what": "SHACLParameter.localname raised %s: %s" % (type(e).__name__, str(e)[:120]), "iri": iri})
            continue
        stats["localname_cases"] += 1
        bodies.append("check_localname %s %s" % (coq_str(iri), obs))
        meta.append({"iri": iri, "observed": got})
    failed, errors = F.coq_eval("localname", PREAMBLE, bodies, shard=500)
    for k in failed[:5]:
        m = meta[k]
        fails.append({"what": "SHACLParameter.localname differs from the model (Sparql/LocalName.v: after the first '#' beyond position 0, else after the last '/' beyond position 0, else the documented error)",
                      "iri": m["iri"], "observed": m["observed"], "model": F.coq_show("localname", PREAMBLE, "localname %s" % coq_str(m["iri"]))})
    stats["localname_model_disagreements"] = len(failed)
    return stats, fails, errors
