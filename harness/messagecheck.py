"""Tie B for coq/Sparql/Message.v: both substitution sites of /repo against the model on random templates and bindings."""
import rdflib
from rdflib import Literal

from . import framework as F

PREAMBLE = ("From Coq Require Import List String Ascii Bool.\nFrom Verif Require Import Sparql.Message.\nImport ListNotations.\nOpen Scope string_scope.\n"
            "Definition check_subst (b:bindings) (t observed:string) : bool := String.eqb (subst b t) observed.\n")
PIECES = ["{", "}", "?", "$", "a", "b", " ", "value", "this", "\\", "\\1", "\\g<0>", "{?value}", "{$this}", "{?a}", "{$a}", "{$b c}", "{?}", "{$}", "{{?a}}", "{?a", "?a}", "{?a{$b}",
          "{a}", "{ ?a}", "x{?b}y", "{$value}{?value}", "{?path}", "(", ")", "[", ".", "*", "+"]
NAMES = ["a", "b", "value", "this", "path", "b c", "?a", "other"]
VALUES = ["v", "", "C:\\dir\\1", "\\g<0>", "{?a}", "{$this}", "{?b} and {$value}", "}", "{", "$0", "\\", "a b", "http://ex.org/x", "{{", "1"]


def coq_str(s):
    return '"' + s.replace('"', '""') + '"'


def run(rng, n):
    from pyshacl.constraints.constraint_component import ConstraintComponent
    from pyshacl.helper.sparql_query_helper import SPARQLQueryHelper
    bodies, meta, fails = [], [], []
    stats = {"message_cases": 0, "message_templates_with_holes": 0, "message_values_with_braces_or_backslashes": 0}
    for _ in range(n):
        template = "".join(rng.choice(PIECES) for _ in range(rng.randint(0, 7)))
        names = rng.sample(NAMES, rng.randint(0, 4))
        binds = {k: rng.choice(VALUES) for k in names}
        stats["message_templates_with_holes"] += 1 if "{?" in template or "{$" in template else 0
        stats["message_values_with_braces_or_backslashes"] += 1 if any(("{" in v or "\\" in v) for v in binds.values()) else 0
        observed = {}
        try:
            observed["_format_sparql_based_result_message"] = str(ConstraintComponent._format_sparql_based_result_message(None, template, dict(binds)))
        except Exception as e:
            fails.append({"what": "ConstraintComponent._format_sparql_based_result_message raised %s: %s" % (type(e).__name__, str(e)[:150]), "template": template, "bindings": binds})
        try:
            h = object.__new__(SPARQLQueryHelper)
            h.unbound_messages = [Literal(template)]
            h.param_bind_map = {}
            h.bind_messages({k: Literal(v) for k, v in binds.items()})
            bm = list(h.bound_messages)
            if len(bm) != 1:
                fails.append({"what": "SPARQLQueryHelper.bind_messages produced %d messages for one template" % len(bm), "template": template, "bindings": binds})
            else:
                observed["bind_messages"] = str(bm[0])
        except Exception as e:
            fails.append({"what": "SPARQLQueryHelper.bind_messages raised %s: %s" % (type(e).__name__, str(e)[:150]), "template": template, "bindings": binds})
        for site, out in observed.items():
            stats["message_cases"] += 1
            bodies.append("check_subst [%s] %s %s" % ("; ".join("(%s, %s)" % (coq_str(k), coq_str(v)) for k, v in binds.items()), coq_str(template), coq_str(out)))
            meta.append({"site": site, "template": template, "bindings": binds, "observed": out})
    failed, errors = F.coq_eval("message", PREAMBLE, bodies, shard=400)
    for k in failed[:5]:
        m = meta[k]
        fails.append({"what": "%s fills the sh:message placeholders differently from the one-pass, verbatim substitution of the model (Sparql/Message.v)" % m["site"],
                      "template": m["template"], "bindings": m["bindings"], "observed": m["observed"],
                      "model": F.coq_show("message", PREAMBLE, "subst [%s] %s" % ("; ".join("(%s, %s)" % (coq_str(k), coq_str(v)) for k, v in m["bindings"].items()), coq_str(m["template"])))})
    stats["message_model_disagreements"] = len(failed)
    return stats, fails, errors
