"""Abstract syntax of shapes graphs for the evaluator-level checks: generator, renderer to rdflib,
renderer to Gallina (Shapes/AST.v), report parser."""
import rdflib
from rdflib import BNode, Literal, URIRef
from rdflib.namespace import RDF, RDFS, XSD

from . import enc
from .enc import EX, SH

PREDS = [str(EX.p), str(EX.q), str(EX.r)]
CLASSES = [EX.C0, EX.C1, EX.C2]
SEVERITIES = [None, SH.Violation, SH.Warning, SH.Info, EX.CustomSeverity]
NODEKINDS = {
    "NKIRI": SH.IRI,
    "NKBlankNode": SH.BlankNode,
    "NKLiteral": SH.Literal,
    "NKBlankNodeOrIRI": SH.BlankNodeOrIRI,
    "NKBlankNodeOrLiteral": SH.BlankNodeOrLiteral,
    "NKIRIOrLiteral": SH.IRIOrLiteral,
}


# ------------------------------------------------------------------ data
def gen_typed_data(rng, n_iri=5, n_bn=1, n_lit=2, n_triples=10):
    nodes, lits = enc.gen_nodes(rng, n_iri, n_bn, n_lit)
    g = enc.gen_data(rng, PREDS, nodes, lits, n_triples)
    for n in nodes:
        if rng.random() < 0.6:
            g.add((n, RDF.type, rng.choice(CLASSES)))
    for _ in range(rng.randint(0, 3)):
        a, b = rng.choice(CLASSES), rng.choice(CLASSES)
        g.add((a, RDFS.subClassOf, b))  # cycles and self loops allowed
    return g, nodes, lits


# ------------------------------------------------------------------ shapes
def new_shape(sid, path=None):
    return {
        "id": sid,
        "path": path,
        "deact": False,
        "sev": None,
        "msgs": [],
        "targets": {"nodes": [], "classes": [], "subjects_of": [], "objects_of": []},
        "types": [],
        "comps": [],
    }


def gen_leaf(rng, is_prop, nodes, lits):
    kinds = ["class", "nodekind", "hasvalue", "in"] + (["mincount", "maxcount"] if is_prop else [])
    k = rng.choice(kinds)
    if k == "class":
        return ("class", rng.sample(CLASSES, rng.randint(1, 2)))
    if k == "nodekind":
        return ("nodekind", rng.choice(sorted(NODEKINDS)))
    if k == "mincount":
        return ("mincount", rng.randint(0, 3))
    if k == "maxcount":
        return ("maxcount", rng.randint(0, 2))
    pool = list(dict.fromkeys([n for n in nodes if not isinstance(n, BNode)] + lits))   # a term once: parameter values are sets
    if k == "hasvalue":
        return ("hasvalue", rng.sample(pool, min(len(pool), rng.randint(1, 2))))
    return ("in", rng.sample(pool, rng.randint(0, min(4, len(pool)))))


def gen_shapes(rng, nodes, lits, n_shapes=6, max_depth_refs=True, recursive=False, p_deact=0.1, sev=True,
               logical=("not", "and", "or", "xone", "node", "property", "qualified")):
    """Layered (acyclic unless `recursive`) shapes graph; shape i only references shapes j > i."""
    shapes = []
    for i in range(n_shapes):
        named = rng.random() < 0.6 or i == 0
        sid = EX["S%d" % i] if named else BNode("s%d" % i)
        is_prop = rng.random() < 0.45
        path = enc.gen_path(rng, PREDS, rng.choice([0, 0, 1, 2])) if is_prop else None
        s = new_shape(sid, path)
        s["deact"] = rng.random() < p_deact
        if sev:
            s["sev"] = rng.choice(SEVERITIES)
        if rng.random() < 0.3:
            s["msgs"] = [Literal("message of %s" % i)] + ([Literal("Nachricht", lang="de")] if rng.random() < 0.4 else [])
        shapes.append(s)
    # targets on some named shapes
    iri_nodes = [n for n in nodes if isinstance(n, URIRef)]
    for s in shapes:
        if isinstance(s["id"], URIRef) and rng.random() < 0.7:
            t = s["targets"]
            for _ in range(rng.randint(1, 2)):
                r = rng.random()
                if r < 0.45:
                    t["nodes"].append(rng.choice(iri_nodes + lits[:1] + [EX.absent]))
                elif r < 0.7:
                    t["classes"].append(rng.choice(CLASSES))
                elif r < 0.85:
                    t["subjects_of"].append(URIRef(rng.choice(PREDS)))
                else:
                    t["objects_of"].append(URIRef(rng.choice(PREDS)))
    for i, s in enumerate(shapes):
        later = shapes[i + 1 :] if not recursive else shapes
        node_refs = [x["id"] for x in later if x["path"] is None]
        prop_refs = [x["id"] for x in later if x["path"] is not None]
        any_refs = [x["id"] for x in later]
        used = set()
        for _ in range(rng.randint(1, 3)):
            r = rng.random()
            if r < 0.4 or not any_refs:
                c = gen_leaf(rng, s["path"] is not None, nodes, lits)
            else:
                k = rng.choice(logical)
                if k == "not":
                    c = ("not", rng.sample(any_refs, min(len(any_refs), rng.choice([1, 1, 2, 3]))))
                elif k in ("and", "or", "xone"):
                    c = (k, [rng.sample(any_refs, min(len(any_refs), rng.randint(1, 3)))])
                    if k == "xone" and rng.random() < 0.2:
                        c = (k, [c[1][0] + c[1][0][:1]])  # duplicated member
                elif k == "node":
                    if not node_refs:
                        continue
                    c = ("node", rng.sample(node_refs, 1))
                elif k == "property":
                    if not prop_refs:
                        continue
                    c = ("property", rng.sample(prop_refs, min(len(prop_refs), rng.randint(1, 2))))
                else:
                    qmin = rng.choice([None, 0, 1, 2])
                    qmax = rng.choice([None, 0, 1, 2])
                    if qmin is None and qmax is None:
                        qmin = 1
                    c = ("qualified", rng.sample(any_refs, 1), qmin, qmax, rng.random() < 0.4)
            if c[0] in used:
                continue
            used.add(c[0])
            s["comps"].append(c)
    return shapes


# ------------------------------------------------------------------ templates for specific mechanisms
def _uid(rng):
    return "%06x" % rng.getrandbits(24)


def tmpl_qualified(rng, nodes, lits, deep=0, easy=False, n_pool=None, named_props=False):
    """a parent with 2-3 sibling property shapes carrying sh:qualifiedValueShape (value shapes drawn from a
    small pool, so two siblings may name the same one), some with sh:qualifiedValueShapesDisjoint"""
    u = _uid(rng)
    iri_nodes = [n for n in nodes if isinstance(n, URIRef)]
    pool = []
    n_pool = n_pool or rng.choice([2, 2, 3, 3])     # three value shapes: a value shape can have two different siblings
    for k in range(n_pool):
        v = new_shape(EX["QV%s_%d" % (u, k)] if rng.random() < 0.6 else BNode("qv%s_%d" % (u, k)), None)
        if not (easy and k == 0):
            v["comps"].append(gen_leaf(rng, False, nodes, lits))
        # a value shape of waivable severity: its failures are nested and never waived, whatever the options say
        v["sev"] = rng.choice([None, None, SH.Info, SH.Warning])
        pool.append(v)
    extra = []
    if deep:
        # make one value shape the head of a chain of sh:node links
        cur = pool[1]
        for j in range(deep):
            nxt = new_shape(BNode("qc%s_%d" % (u, j)), None)
            cur["comps"].append(("node", [nxt["id"]]))
            extra.append(nxt)
            cur = nxt
        cur["comps"].append(gen_leaf(rng, False, nodes, lits))
    parent = new_shape(EX["QP%s" % u], None)
    parent["targets"]["nodes"] = rng.sample(iri_nodes, min(2, len(iri_nodes)))
    props = []
    for k in range(rng.randint(2, 3) + (1 if n_pool == 3 else 0)):
        # mostly anonymous; a named one with a target of its own can be selected alone (use_shapes) while its parent is not
        named_ps = named_props or rng.random() < 0.3
        ps = new_shape(EX["QPS%s_%d" % (u, k)] if named_ps else BNode("qp%s_%d" % (u, k)), ("pred", rng.choice(PREDS[:2])))
        if named_ps and (named_props or rng.random() < 0.7):
            ps["targets"]["nodes"] = rng.sample(iri_nodes, min(2, len(iri_nodes)))
        ps["sev"] = rng.choice([None, None, SH.Warning, SH.Info])
        qmin = rng.choice([None, 0, 1, 2])
        qmax = rng.choice([None, 0, 1, 2])
        if qmin is None and qmax is None:
            qmin = 1
        if rng.random() < 0.3:
            # a narrow band: both bounds declared, the maximum reached as soon as the minimum is
            qmin = rng.choice([1, 1, 2])
            qmax = rng.choice([qmin, qmin, qmin - 1])
        if easy:
            ps["comps"].append(("qualified", [pool[k % n_pool]["id"]], qmin, qmax, True))
        else:
            ps["comps"].append(("qualified", [rng.choice(pool)["id"]], qmin, qmax, rng.random() < 0.7))
        props.append(ps)
    parent["comps"].append(("property", [p["id"] for p in props]))
    return [parent] + props + pool + extra


def tmpl_severity(rng, nodes, lits):
    """a parent (random severity) whose 2-3 sibling property shapes have different severities and mostly fail"""
    u = _uid(rng)
    iri_nodes = [n for n in nodes if isinstance(n, URIRef)]
    parent = new_shape(EX["SP%s" % u], None)
    parent["sev"] = rng.choice(SEVERITIES)
    parent["targets"]["nodes"] = rng.sample(iri_nodes, min(2, len(iri_nodes)))
    sevs = [SH.Warning, SH.Info, None, SH.Violation, EX.CustomSeverity]
    rng.shuffle(sevs)
    props = []
    for k in range(rng.randint(2, 3)):
        ps = new_shape(BNode("sp%s_%d" % (u, k)) if rng.random() < 0.7 else EX["SPP%s_%d" % (u, k)], ("pred", rng.choice(PREDS)))
        ps["sev"] = sevs[k]
        ps["comps"].append(rng.choice([("mincount", 4), ("hasvalue", [EX.absent]), ("maxcount", 0), ("in", [])]))
        if rng.random() < 0.3 and ps["comps"][0][0] != "mincount":
            ps["comps"].append(("mincount", 5))
        props.append(ps)
    if rng.random() < 0.5:
        parent["comps"].append(gen_leaf(rng, False, nodes, lits))
    parent["comps"].append(("property", [p["id"] for p in props]))
    if rng.random() < 0.4 and not any(c[0] == "in" for c in parent["comps"]):
        parent["comps"].append(("in", []))
    rng.shuffle(parent["comps"])
    return [parent] + props


def tmpl_nested_severity(rng, nodes, lits):
    """a parent of waivable severity whose sh:node / sh:not / sh:and member has another severity and mostly fails:
    the nested results sit under sh:detail (or nowhere) and must not reach the verdict"""
    u = _uid(rng)
    iri_nodes = [n for n in nodes if isinstance(n, URIRef)]
    parent = new_shape(EX["NS%s" % u], None)
    parent["sev"] = rng.choice([SH.Warning, SH.Info, SH.Info, None])
    parent["targets"]["nodes"] = rng.sample(iri_nodes, min(2, len(iri_nodes)))
    inner = new_shape(BNode("ns%s" % u) if rng.random() < 0.6 else EX["NSI%s" % u], None)
    inner["sev"] = rng.choice([None, SH.Violation, SH.Warning, EX.CustomSeverity, SH.Info])
    inner["comps"].append(rng.choice([("in", []), ("class", [EX.NoSuchClass]), ("hasvalue", [EX.absent])]))
    out = [parent, inner]
    if rng.random() < 0.4:
        deeper = new_shape(BNode("nsd%s" % u), None)
        deeper["sev"] = rng.choice([None, SH.Warning, SH.Info])
        deeper["comps"].append(("in", []))
        inner["comps"].append(("node", [deeper["id"]]))
        out.append(deeper)
    kind = rng.choice(["node", "node", "node", "and", "or"])
    parent["comps"].append((kind, [inner["id"]] if kind == "node" else [[inner["id"]]]))
    if rng.random() < 0.3:
        ps = new_shape(BNode("nsp%s" % u), ("pred", rng.choice(PREDS)))
        ps["sev"] = rng.choice([SH.Info, SH.Warning])
        ps["comps"].append(("mincount", 4))
        parent["comps"].append(("property", [ps["id"]]))
        out.append(ps)
    return out


def tmpl_custom(rng, nodes, lits):
    """a shape with a (mostly failing) SPARQL-based constraint component and/or sh:sparql constraint next to
    core constraints and sibling property shapes of other severities"""
    from . import sparqlgen as SG
    u = _uid(rng)
    iri_nodes = [n for n in nodes if isinstance(n, URIRef)]
    parent = new_shape(EX["CP%s" % u], None)
    parent["sev"] = rng.choice([SH.Info, SH.Warning, None, SH.Violation])
    parent["targets"]["nodes"] = rng.sample(iri_nodes, min(2, len(iri_nodes)))
    out = [parent]
    if rng.random() < 0.7:
        ps = new_shape(BNode("cpp%s" % u), ("pred", rng.choice(PREDS)))
        ps["sev"] = rng.choice([None, None, SH.Warning, SH.Info])
        ps["comps"].append(rng.choice([("mincount", 4), ("hasvalue", [EX.absent])]))
        parent["comps"].append(("property", [ps["id"]]))
        out.append(ps)
    if rng.random() < 0.4:
        parent["comps"].append(gen_leaf(rng, False, nodes, lits))
    if rng.random() < 0.6:
        cc = SG.gen_custom(rng, 0, iri_nodes + lits)
        if cc["kind"] == "select":
            cc["query"], cc["needs_prop"] = SG.CSELECTS[1]
        parent["comps"].append(("custom", cc))
    if rng.random() < 0.5:
        sc = SG.gen_sparql_constraint(rng, False)
        while any(f in sc["select"] for f in ("MINUS", "VALUES", "SERVICE", "AS ?this", "{ SELECT", "?failure")):
            sc = SG.gen_sparql_constraint(rng, False)
        parent["comps"].insert(rng.randint(0, len(parent["comps"])), ("sparql", [sc]))
    # custom components run after the core ones: keep them last in the model's component list
    parent["comps"].sort(key=lambda c: c[0] == "custom")
    return out


def tmpl_custom_alone(rng, nodes, lits):
    """a SPARQL-based constraint component that is the only (or the first) thing to fail in its shape - on a targeted node
    shape, or on a property shape consulted through sh:property by a parent of another severity"""
    from . import sparqlgen as SG
    u = _uid(rng)
    iri_nodes = [n for n in nodes if isinstance(n, URIRef)]
    parent = new_shape(EX["CA%s" % u], None)
    parent["sev"] = rng.choice([SH.Info, SH.Warning, None, None])
    parent["targets"]["nodes"] = rng.sample(iri_nodes, min(rng.randint(1, 3), len(iri_nodes)))
    cc = SG.gen_custom(rng, 0, iri_nodes + lits)
    nested = rng.random() < 0.5
    if cc["kind"] == "select":
        cc["query"], cc["needs_prop"] = rng.choice([SG.CSELECTS[1], SG.CSELECTS[3]] + ([SG.CSELECTS[4]] if nested else []))
    cc["query"] = cc["query"].replace("$arg", "$" + cc["var"])
    if nested:
        ps = new_shape(BNode("cap%s" % u) if rng.random() < 0.6 else EX["CAP%s" % u], ("pred", rng.choice(PREDS[:2])))
        ps["sev"] = rng.choice([None, SH.Warning, SH.Info, SH.Violation])
        cc["on_prop"] = True
        ps["comps"].append(("custom", cc))
        parent["comps"].append(("property", [ps["id"]]))
        return [parent, ps]
    parent["comps"].append(("custom", cc))
    return [parent]


def tmpl_shared(rng, nodes, lits):
    """one shape PS reached twice for the same value node: once inside a logical component that swallows its failure
    (sh:or / sh:xone / sh:not), once through sh:property or sh:node whose failure counts - by two sibling property
    shapes over different predicates (the generator adds edges so that both predicates reach the same nodes)"""
    u = _uid(rng)
    iri_nodes = [n for n in nodes if isinstance(n, URIRef)]
    ps = new_shape(EX["SH%s" % u] if rng.random() < 0.5 else BNode("sh%s" % u), ("pred", PREDS[2]))
    ps["comps"].append(rng.choice([("mincount", 3), ("mincount", 1), ("maxcount", 0), ("class", [EX.NoSuchClass])]))
    ps["sev"] = rng.choice([None, None, SH.Warning, SH.Info])
    easy = new_shape(BNode("se%s" % u), None)          # (nearly) everything conforms to it
    easy["comps"].append(("nodekind", rng.choice(["NKIRIOrLiteral", "NKBlankNodeOrIRI", "NKIRI"])))
    a = new_shape(BNode("sa%s" % u), ("pred", PREDS[0]))
    kind = rng.choice(["or", "or", "xone", "not"])
    a["comps"].append(("not", [ps["id"]]) if kind == "not" else (kind, [[ps["id"], easy["id"]]]))
    b = new_shape(BNode("sb%s" % u), ("pred", PREDS[1]))
    b["comps"].append((rng.choice(["property", "property", "node"]), [ps["id"]]))
    if b["comps"][0][0] == "node":
        # sh:node needs a node shape: wrap the property shape
        wrap = new_shape(BNode("sw%s" % u), None)
        wrap["comps"].append(("property", [ps["id"]]))
        b["comps"][0] = ("node", [wrap["id"]])
        extra = [wrap]
    else:
        extra = []
    b["sev"] = rng.choice([None, SH.Warning, SH.Info])
    parent = new_shape(EX["SHP%s" % u], None)
    parent["targets"]["nodes"] = rng.sample(iri_nodes, min(2, len(iri_nodes)))
    parent["comps"].append(("property", [a["id"], b["id"]]))
    return [parent, a, b, ps, easy] + extra


def tmpl_multi_logical(rng, nodes, lits):
    """sh:not / sh:or / sh:and / sh:xone on a PROPERTY shape whose focus nodes have several values (the generator adds them):
    the component's answer for one value must not cut short the look at the others"""
    u = _uid(rng)
    iri_nodes = [n for n in nodes if isinstance(n, URIRef)]
    inner = new_shape(BNode("ml%s" % u) if rng.random() < 0.5 else EX["ML%s" % u], None)
    inner["comps"].append(rng.choice([("nodekind", "NKIRI"), ("nodekind", "NKLiteral"), ("class", [rng.choice(CLASSES)]), ("in", rng.sample(iri_nodes + lits, min(2, len(iri_nodes + lits))))]))
    other = new_shape(BNode("mo%s" % u), None)
    other["comps"].append(("nodekind", rng.choice(["NKLiteral", "NKBlankNode", "NKIRI"])))
    ps = new_shape(BNode("mp%s" % u), ("pred", rng.choice(PREDS[:2])))
    kind = rng.choice(["not", "not", "or", "and", "xone"])
    # sh:not with several values: each negated shape is a constraint of its own
    ps["comps"].append(("not", [inner["id"]] + ([other["id"]] if rng.random() < 0.5 else [])) if kind == "not" else (kind, [[inner["id"], other["id"]]]))
    ps["sev"] = rng.choice([None, None, SH.Warning, SH.Info])
    parent = new_shape(EX["MLP%s" % u], None)
    parent["targets"]["nodes"] = rng.sample(iri_nodes, min(2, len(iri_nodes)))
    parent["comps"].append(("property", [ps["id"]]))
    return [parent, ps, inner, other]


def tmpl_several_lists(rng, nodes, lits):
    """a shape with SEVERAL sh:or (sh:and / sh:xone) lists: every list is a constraint of its own and all of them must hold;
    one list is (nearly) always satisfied, another one hardly ever - whichever the component happens to consult first"""
    u = _uid(rng)
    iri_nodes = [n for n in nodes if isinstance(n, URIRef)]
    easy = new_shape(BNode("ve%s" % u), None)
    easy["comps"].append(("nodekind", rng.choice(["NKIRIOrLiteral", "NKBlankNodeOrIRI", "NKIRI"])))
    hard = new_shape(BNode("vh%s" % u), None)
    hard["comps"].append(rng.choice([("class", [EX.NoSuchClass]), ("in", []), ("nodekind", "NKLiteral"), ("hasvalue", [EX.absent])]))
    other = new_shape(BNode("vo%s" % u), None)
    other["comps"].append(("nodekind", rng.choice(["NKLiteral", "NKBlankNode", "NKIRI"])))
    kind = rng.choice(["or", "or", "or", "and", "xone"])
    lists = [[easy["id"]], [hard["id"]]] + ([[other["id"], hard["id"]]] if rng.random() < 0.4 else [])
    rng.shuffle(lists)
    on_prop = rng.random() < 0.4
    host = new_shape(EX["SVL%s" % u], ("pred", rng.choice(PREDS[:2])) if on_prop else None)
    host["targets"]["nodes"] = rng.sample(iri_nodes, min(2, len(iri_nodes)))
    # either one component entry per list or one entry with all the lists: the same shapes graph
    if rng.random() < 0.5:
        host["comps"].append((kind, lists))
    else:
        host["comps"].extend((kind, [l_]) for l_ in lists)
    host["sev"] = rng.choice([None, None, SH.Warning])
    return [host, easy, hard, other]


def add_templates(rng, shapes, nodes, lits, p=0.5):
    if rng.random() < p:
        shapes.extend(tmpl_custom(rng, nodes, lits))
    if rng.random() < p:
        shapes.extend(tmpl_qualified(rng, nodes, lits))
    if rng.random() < p:
        shapes.extend(tmpl_severity(rng, nodes, lits))
    if rng.random() < p:
        shapes.extend(tmpl_nested_severity(rng, nodes, lits))
    return shapes


def shapes_to_rdf(shapes, explicit_types=True):
    g = rdflib.Graph()
    g.bind("ex", EX)
    g.bind("sh", SH)
    for s in shapes:
        n = s["id"]
        if s["path"] is not None:
            g.add((n, SH.path, enc.path_to_rdf(g, s["path"])))
            if explicit_types and isinstance(n, URIRef):
                g.add((n, RDF.type, SH.PropertyShape))
        elif explicit_types and isinstance(n, URIRef):
            g.add((n, RDF.type, SH.NodeShape))
        for t in s["types"]:
            g.add((n, RDF.type, t))
        if s["deact"]:
            g.add((n, SH.deactivated, Literal(True)))
        if s["sev"] is not None:
            g.add((n, SH.severity, s["sev"]))
        for m in s.get("msgs", []):
            g.add((n, SH.message, m))
        t = s["targets"]
        for x in t["nodes"]:
            g.add((n, SH.targetNode, x))
        for x in t["classes"]:
            g.add((n, SH.targetClass, x))
        for x in t["subjects_of"]:
            g.add((n, SH.targetSubjectsOf, x))
        for x in t["objects_of"]:
            g.add((n, SH.targetObjectsOf, x))
        for c in s["comps"]:
            k = c[0]
            if k == "class":
                for x in c[1]:
                    g.add((n, SH["class"], x))
            elif k == "nodekind":
                g.add((n, SH.nodeKind, NODEKINDS[c[1]]))
            elif k == "mincount":
                g.add((n, SH.minCount, Literal(c[1])))
            elif k == "maxcount":
                g.add((n, SH.maxCount, Literal(c[1])))
            elif k == "hasvalue":
                for x in c[1]:
                    g.add((n, SH.hasValue, x))
            elif k == "in":
                g.add((n, SH["in"], enc.rdf_list(g, c[1])))
            elif k == "not":
                for x in c[1]:
                    g.add((n, SH["not"], x))
            elif k in ("and", "or", "xone"):
                for lst in c[1]:
                    g.add((n, SH[k], enc.rdf_list(g, lst)))
            elif k == "node":
                for x in c[1]:
                    g.add((n, SH.node, x))
            elif k == "property":
                for x in c[1]:
                    g.add((n, SH.property, x))
            elif k == "qualified":
                for x in c[1]:
                    g.add((n, SH.qualifiedValueShape, x))
                if c[2] is not None:
                    g.add((n, SH.qualifiedMinCount, Literal(c[2])))
                if c[3] is not None:
                    g.add((n, SH.qualifiedMaxCount, Literal(c[3])))
                if c[4]:
                    g.add((n, SH.qualifiedValueShapesDisjoint, Literal(True)))
            elif k == "sparql":
                from . import sparqlgen
                sparqlgen.sparql_to_rdf(g, n, c)
            elif k == "custom":
                from . import sparqlgen
                sparqlgen.custom_to_rdf(g, n, c)
            else:
                from . import leaves
                if not leaves.leaf_to_rdf(g, n, c):
                    raise ValueError(k)
    return g


def comp_to_coq(I, c, W=None, value_terms=(), ctx=None):
    k = c[0]
    if k in ("sparql", "custom"):
        from . import sparqlgen
        return sparqlgen.comp_to_coq(I, c, ctx["shape"], ctx["data"], ctx["foci"])
    if W is not None:
        from . import leaves
        r = leaves.leaf_to_coq(I, W, c, value_terms)
        if r is not None:
            return r
    zopt = lambda z: "None" if z is None else "(Some (%d)%%Z)" % z
    if k == "class":
        return "CLeaf (LClass %s)" % I.terms(c[1])
    if k == "nodekind":
        return "CLeaf (LNodeKind %s)" % c[1]
    if k == "mincount":
        return "CLeaf (LMinCount (%d)%%Z)" % c[1]
    if k == "maxcount":
        return "CLeaf (LMaxCount (%d)%%Z)" % c[1]
    if k == "hasvalue":
        return "CLeaf (LHasValue %s)" % I.terms(c[1])
    if k == "in":
        return "CLeaf (LIn %s)" % I.terms(c[1])
    if k == "not":
        return "CNot %s" % I.terms(c[1])
    if k in ("and", "or", "xone"):
        return "%s [%s]" % ({"and": "CAnd", "or": "COr", "xone": "CXone"}[k], "; ".join(I.terms(l) for l in c[1]))
    if k == "node":
        return "CNode %s" % I.terms(c[1])
    if k == "property":
        return "CProperty %s" % I.terms(c[1])
    if k == "qualified":
        return "CQualified %s %s %s %s" % (I.terms(c[1]), zopt(c[2]), zopt(c[3]), enc.coq_bool(c[4]))
    raise ValueError(k)


def shape_to_coq(I, s, W=None, value_terms=(), ctx=None):
    if ctx is not None:
        ctx = dict(ctx, shape=s)
    t = s["targets"]
    sev = s["sev"] if s["sev"] is not None else SH.Violation
    return (
        "{| sid := %s; spath := %s; deact := %s; ssev := %s; smsgs := %s; "
        "stargets := {| t_nodes := %s; t_classes := %s; t_implicit := false; t_subjects_of := %s; t_objects_of := %s |}; "
        "scomps := [%s] |}"
        % (
            I.term(s["id"]),
            enc.coq_opt(enc.path_to_coq(I, s["path"])) if s["path"] is not None else "None",
            enc.coq_bool(s["deact"]),
            I.term(sev),
            I.terms(s.get("msgs", [])),
            I.terms(t["nodes"]),
            I.terms(t["classes"]),
            I.terms(t["subjects_of"]),
            I.terms(t["objects_of"]),
            "; ".join("(%s)" % comp_to_coq(I, c, W, value_terms, ctx) for c in s["comps"]),
        )
    )


def env_to_coq(I, shapes, W=None, value_terms=(), ctx=None):
    return "[" + ";\n   ".join(shape_to_coq(I, s, W, value_terms, ctx) for s in shapes) + "]"


def opts_to_coq(I, o):
    return "{| abort := %s; allow_infos := %s; allow_warnings := %s; max_depth := %d; focus_filter := %s |}" % (
        enc.coq_bool(o.get("abort_on_first", False)),
        enc.coq_bool(o.get("allow_infos", False)),
        enc.coq_bool(o.get("allow_warnings", False)),
        o.get("max_validation_depth", 15),
        I.terms([URIRef(x) for x in (o.get("focus_nodes") or [])]),
    )


def class_triples(sg_graph):
    """the part of the (system-triple augmented) shapes graph the model reads: rdf:type and rdfs:subClassOf"""
    g = rdflib.Graph()
    for tr in sg_graph.triples((None, RDF.type, None)):
        g.add(tr)
    for tr in sg_graph.triples((None, RDFS.subClassOf, None)):
        g.add(tr)
    return g


# ------------------------------------------------------------------ running and parsing
def parse_result(rg, r):
    focus = next(rg.objects(r, SH.focusNode))
    vals = list(rg.objects(r, SH.value))
    comp = next(rg.objects(r, SH.sourceConstraintComponent))
    src = next(rg.objects(r, SH.sourceShape))
    sev = next(rg.objects(r, SH.resultSeverity))
    details = [parse_result(rg, d) for d in rg.objects(r, SH.detail)]
    paths = list(rg.objects(r, SH.resultPath))
    # an IRI path is compared as such; a complex path (copied blank-node structure) only by its presence
    path = None if not paths else (paths[0] if isinstance(paths[0], URIRef) else "complex")
    msgs = sorted(rg.objects(r, SH.resultMessage), key=lambda m: m.n3())
    scs = list(rg.objects(r, SH.sourceConstraint))
    return (focus, vals[0] if vals else None, comp, src, sev, details, path, len(vals), len(paths), msgs, scs)


def parse_report(rg):
    reports = list(rg.subjects(RDF.type, SH.ValidationReport))
    assert len(reports) == 1
    return [parse_result(rg, r) for r in rg.objects(reports[0], SH.result)]


def result_to_coq(I, r, declared=None):
    f, v, comp, src, sev, details, path = r[:7]
    # only declared sh:message values are compared; auto-generated default messages are dropped
    msgs = r[9] if (declared and (declared.get(src) or any(declared.get(x) for x in r[10]) or declared.get(comp))) else []
    return "VR (%s) %s %s %d (%s) (%s) %s [%s]" % (
        I.term(f),
        enc.coq_opt(I.term(v)) if v is not None else "None",
        "None" if path is None else ("(Some (BN 0))" if path == "complex" else enc.coq_opt(I.term(path))),
        I.iri_num(comp),
        I.term(src),
        I.term(sev),
        I.terms(msgs),
        "; ".join(result_to_coq(I, d, declared) for d in details),
    )


def run_validate(data_graph, shapes_graph, **opts):
    import pyshacl

    try:
        conforms, rg, text = pyshacl.validate(data_graph, shacl_graph=shapes_graph, **opts)
    except Exception as e:
        return ("err", enc.exn_name(e), repr(e)[:300])
    if not isinstance(rg, rdflib.Graph):
        return ("err", "ValFailure", str(rg)[:300])
    return ("ok", bool(conforms), parse_report(rg), text, rg)


def observed_to_coq(I, obs, shapes=None):
    declared = {s["id"]: bool(s.get("msgs")) for s in (shapes or [])}
    for s in shapes or []:
        for c in s["comps"]:
            if c[0] == "sparql":
                for sc in c[1]:
                    declared[sc["node"]] = bool(sc["msgs"])
            elif c[0] == "custom":
                declared[c[1]["node"]] = bool(c[1]["msgs"])
    if obs[0] == "err":
        if obs[1].startswith("RAW:") or obs[1] in ("ValFailure", "RuleLoad"):
            return None
        return "Err %s" % obs[1]
    return "Ok (%s, [%s])" % (enc.coq_bool(obs[1]), ";\n    ".join(result_to_coq(I, r, declared) for r in obs[2]))


def result_key(r):
    f, v, comp, src, sev, details, path = r[:7]
    return (f.n3(), v.n3() if v is not None else None, str(comp).rsplit("#")[-1], src.n3(), str(sev).rsplit("#")[-1],
            sorted((result_key(d) for d in details), key=str), path if path in (None, "complex") else path.n3())


def describe_case(shapes_graph, data_graph, opts, obs):
    return {
        "shapes_ttl": shapes_graph.serialize(format="turtle"),
        "data_nt": sorted(" ".join(t.n3() for t in tr) for tr in data_graph),
        "options": {k: (v if not isinstance(v, rdflib.Graph) else {"graph_nt": sorted(" ".join(t.n3() for t in tr) for tr in v), "prefixes": sorted((p, str(n)) for p, n in v.namespaces() if str(n).startswith("http://ex.org"))})
                    for k, v in opts.items()},
        "observed": (obs[1], sorted(map(result_key, obs[2]), key=str)) if obs[0] == "ok" else list(obs[1:3]),
    }
