#!/venv/bin/python
"""T4: pyshacl/rdfutil/closure.py (work-list transitive closures) regenerated from /repo into coq/Gen/T4.v as programs of
the language of coq/Closure/Worklist.v, plus the call sites that use them. Fail-closed: any statement outside the
recognised forms stops the translation."""
import ast, os, sys
HERE = os.path.dirname(os.path.abspath(__file__))
sys.path.insert(0, HERE)
from py2mini import Untranslatable, cstr, no_decorators

REPO = os.environ.get("VERIF_REPO", "/repo")
FILE = "pyshacl/rdfutil/closure.py"


def name_of(n):
    return n.id if isinstance(n, ast.Name) else None


def method_call(n, obj, meth):
    """n is `obj.meth(...)`"""
    return isinstance(n, ast.Call) and isinstance(n.func, ast.Attribute) and n.func.attr == meth and name_of(n.func.value) == obj and not n.keywords


def body_stmts(stmts, var, where):
    out = []
    for s in stmts:
        if isinstance(s, ast.Break):
            out.append("SBreak")
        elif isinstance(s, ast.Continue):
            out.append("SContinue")
        elif isinstance(s, ast.Expr) and method_call(s.value, "seen", "add") and [name_of(a) for a in s.value.args] == [var]:
            out.append("SAddSeen")
        elif isinstance(s, ast.Expr) and method_call(s.value, "found", "append") and [name_of(a) for a in s.value.args] == [var]:
            out.append("SAppendFound")
        elif isinstance(s, ast.Expr) and method_call(s.value, "todo", "append") and [name_of(a) for a in s.value.args] == [var]:
            out.append("SAppendTodo")
        elif (isinstance(s, ast.If) and not s.orelse and isinstance(s.test, ast.Compare) and name_of(s.test.left) == var and len(s.test.ops) == 1
              and isinstance(s.test.ops[0], (ast.In, ast.NotIn)) and name_of(s.test.comparators[0]) == "seen"):
            out.append("SIf %s [%s]" % ("true" if isinstance(s.test.ops[0], ast.In) else "false", "; ".join(body_stmts(s.body, var, where))))
        elif isinstance(s, ast.Expr) and isinstance(s.value, ast.Constant) and isinstance(s.value.value, str):
            continue  # a stray docstring / comment string
        else:
            raise Untranslatable("%s:%d: %s: statement outside the work-list language: %s" % (FILE, s.lineno, where, ast.unparse(s)[:80]))
    return out


def init_flag(stmt, target, start, where):
    """`target = {start}` / `[start]` -> true;  `set()` / `[]` -> false"""
    if not (isinstance(stmt, ast.Assign) and len(stmt.targets) == 1 and name_of(stmt.targets[0]) == target):
        raise Untranslatable("%s:%d: %s: expected the initialisation of `%s`" % (FILE, stmt.lineno, where, target))
    v = stmt.value
    if isinstance(v, (ast.Set, ast.List)) and isinstance(v, ast.Set if target == "seen" else ast.List):
        if [name_of(e) for e in v.elts] == [start]:
            return "true"
        if isinstance(v, ast.List) and not v.elts:
            return "false"
    if target == "seen" and isinstance(v, ast.Call) and name_of(v.func) == "set" and not v.args:
        return "false"
    raise Untranslatable("%s:%d: %s: `%s` is initialised with something else than the start node or nothing" % (FILE, stmt.lineno, where, target))


def translate_function(fn):
    where = fn.name
    params = [a.arg for a in fn.args.args]
    if fn.name == "transitive_subjects":
        if params != ["graph", "predicate", "obj"]:
            raise Untranslatable("%s: %s: parameters changed: %r" % (FILE, where, params))
        start, backward = "obj", True
    elif fn.name == "transitive_objects":
        if params != ["graph", "subject", "predicate"]:
            raise Untranslatable("%s: %s: parameters changed: %r" % (FILE, where, params))
        start, backward = "subject", False
    else:
        raise Untranslatable("%s: unknown function %s" % (FILE, fn.name))
    body = [s for s in fn.body if not (isinstance(s, ast.Expr) and isinstance(s.value, ast.Constant) and isinstance(s.value.value, str))]
    if len(body) != 5:
        raise Untranslatable("%s: %s: expected three initialisations, one while loop and one return (found %d statements)" % (FILE, where, len(body)))
    f_seen, f_found, f_todo = init_flag(body[0], "seen", start, where), init_flag(body[1], "found", start, where), init_flag(body[2], "todo", start, where)
    w = body[3]
    if not (isinstance(w, ast.While) and name_of(w.test) == "todo" and not w.orelse and len(w.body) == 2):
        raise Untranslatable("%s:%d: %s: expected `while todo:` with a pop and a for loop" % (FILE, w.lineno, where))
    popst, forst = w.body
    if not (isinstance(popst, ast.Assign) and len(popst.targets) == 1 and name_of(popst.targets[0]) == "current" and method_call(popst.value, "todo", "pop")):
        raise Untranslatable("%s:%d: %s: expected `current = todo.pop()`" % (FILE, popst.lineno, where))
    if not popst.value.args:
        pop_last = "true"
    elif len(popst.value.args) == 1 and isinstance(popst.value.args[0], ast.Constant) and popst.value.args[0].value == 0:
        pop_last = "false"
    else:
        raise Untranslatable("%s:%d: %s: todo.pop() with an unexpected argument" % (FILE, popst.lineno, where))
    if not (isinstance(forst, ast.For) and not forst.orelse and isinstance(forst.target, ast.Name)):
        raise Untranslatable("%s:%d: %s: expected a for loop over the neighbours of `current`" % (FILE, forst.lineno, where))
    it = forst.iter
    if method_call(it, "graph", "subjects") and [name_of(a) for a in it.args] == ["predicate", "current"]:
        dir_backward = True
    elif method_call(it, "graph", "objects") and [name_of(a) for a in it.args] == ["current", "predicate"]:
        dir_backward = False
    else:
        raise Untranslatable("%s:%d: %s: the neighbours are not graph.subjects(predicate, current) / graph.objects(current, predicate)" % (FILE, forst.lineno, where))
    if dir_backward != backward:
        raise Untranslatable("%s:%d: %s: walks the predicate in the wrong direction" % (FILE, forst.lineno, where))
    stmts = body_stmts(forst.body, forst.target.id, where)
    r = body[4]
    if not (isinstance(r, ast.Return) and name_of(r.value) == "found"):
        raise Untranslatable("%s:%d: %s: does not return `found`" % (FILE, r.lineno, where))
    return ("{| p_backward := %s; p_seen_start := %s; p_found_start := %s; p_todo_start := %s; p_pop_last := %s;\n     p_body := [%s] |}"
            % ("true" if backward else "false", f_seen, f_found, f_todo, pop_last, "; ".join(stmts)))


def call_sites():
    """every call of the two functions in pyshacl/, and every remaining use of rdflib's recursive closures"""
    sites, recursive = [], []
    for root, _, files in os.walk(os.path.join(REPO, "pyshacl")):
        for f in sorted(files):
            if not f.endswith(".py"):
                continue
            path = os.path.join(root, f)
            rel = os.path.relpath(path, REPO)
            if rel == FILE:
                continue
            try:
                tree = ast.parse(open(path, encoding="utf-8").read())
            except SyntaxError as e:
                raise Untranslatable("%s: does not parse: %s" % (rel, e))
            for n in ast.walk(tree):
                if isinstance(n, ast.Call) and isinstance(n.func, ast.Name) and n.func.id in ("transitive_subjects", "transitive_objects"):
                    args = [ast.unparse(a) for a in n.args]
                    if len(args) != 3 or n.keywords:
                        raise Untranslatable("%s:%d: call of %s with an unexpected argument list" % (rel, n.lineno, n.func.id))
                    pred = args[1] if n.func.id == "transitive_subjects" else args[2]
                    sites.append((rel, n.lineno, n.func.id, pred))
                if isinstance(n, ast.Call) and isinstance(n.func, ast.Attribute) and n.func.attr in ("transitive_subjects", "transitive_objects", "transitiveClosure"):
                    recursive.append((rel, n.lineno, n.func.attr))
    return sorted(sites), sorted(recursive)


def main():
    tree = ast.parse(open(os.path.join(REPO, FILE), encoding="utf-8").read())
    fns = {n.name: n for n in tree.body if isinstance(n, ast.FunctionDef)}
    others = [n for n in tree.body if not isinstance(n, (ast.FunctionDef, ast.Import, ast.ImportFrom)) and not (isinstance(n, ast.Expr) and isinstance(n.value, ast.Constant))]
    if sorted(fns) != ["transitive_objects", "transitive_subjects"] or others:
        raise Untranslatable("%s: expected exactly the functions transitive_subjects and transitive_objects at module level" % FILE)
    for name in ("transitive_subjects", "transitive_objects"):
        no_decorators(fns[name], "%s: %s" % (FILE, name))
    sites, recursive = call_sites()
    out = ["(* GENERATED by translator/t4.py from %s and the call sites under pyshacl/ - do not edit *)" % FILE,
           "From Coq Require Import List String Bool.", "From Verif Require Import Closure.Worklist.", "Import ListNotations.", "Open Scope string_scope.", ""]
    for name in ("transitive_subjects", "transitive_objects"):
        out.append("Definition %s_prog : prog :=\n  %s.\n" % (name, translate_function(fns[name])))
    out.append("(* (file, function called, predicate argument as written) *)")
    out.append("Definition closure_call_sites : list (string * string * string) :=\n  [%s].\n" % ";\n   ".join("(%s, %s, %s)" % (cstr(f), cstr(fn), cstr(p)) for f, _, fn, p in sites))
    out.append("(* calls of rdflib's recursive Graph.transitive_subjects / transitive_objects / transitiveClosure left in pyshacl/ *)")
    out.append("Definition recursive_closure_uses : list (string * string) :=\n  [%s].\n" % "; ".join("(%s, %s)" % (cstr(f), cstr(a)) for f, _, a in recursive))
    dest = os.path.join(os.path.dirname(HERE), "coq", "Gen", "T4.v")
    text = "\n".join(out)
    if not os.path.exists(dest) or open(dest).read() != text:
        open(dest, "w").write(text)
    print("T4: ok (%d call sites, %d recursive uses)" % (len(sites), len(recursive)))


if __name__ == "__main__":
    try:
        main()
    except Untranslatable as e:
        print("T4: UNTRANSLATABLE: %s" % e)
        sys.exit(3)
