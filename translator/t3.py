#!/venv/bin/python
"""T3: the outcome -> exit status mapping of pyshacl/cli.py main() and the exception classes of pyshacl/errors.py,
regenerated from /repo into coq/Gen/T3.v. Fail-closed: anything outside the recognised shapes stops the translation."""
import ast, os, sys
HERE = os.path.dirname(os.path.abspath(__file__))
sys.path.insert(0, HERE)
from py2mini import Untranslatable, cstr

REPO = os.environ.get("VERIF_REPO", "/repo")


def find_main(tree):
    for n in tree.body:
        if isinstance(n, ast.FunctionDef) and n.name == "main":
            return n
    raise Untranslatable("cli.py: main() not found")


def is_sys_exit(n):
    return isinstance(n, ast.Call) and isinstance(n.func, ast.Attribute) and n.func.attr == "exit" and isinstance(n.func.value, ast.Name) and n.func.value.id == "sys"


def main():
    path = os.path.join(REPO, "pyshacl", "cli.py")
    tree = ast.parse(open(path).read())
    fn = find_main(tree)
    # the try statement around the validate() call
    tries = [s for s in fn.body if isinstance(s, ast.Try) and any(isinstance(c, ast.Call) and isinstance(c.func, ast.Name) and c.func.id == "validate" for c in ast.walk(s))]
    if len(tries) != 1:
        raise Untranslatable("cli.py: expected exactly one try statement around validate(), found %d" % len(tries))
    t = tries[0]
    idx = fn.body.index(t)
    handlers = []
    for h in t.handlers:
        if h.type is None:
            name = "BaseException"
        elif isinstance(h.type, ast.Name):
            name = h.type.id
        else:
            raise Untranslatable("cli.py:%d: handler with a compound exception type" % h.lineno)
        codes = [s.value.value for s in ast.walk(h) if isinstance(s, ast.Assign) and len(s.targets) == 1 and isinstance(s.targets[0], ast.Name)
                 and s.targets[0].id == "exit_code" and isinstance(s.value, ast.Constant) and isinstance(s.value.value, int)]
        exits = [c for c in ast.walk(h) if is_sys_exit(c)]
        reraises = [s for s in ast.walk(h) if isinstance(s, ast.Raise)]
        if len(codes) != 1 or exits or reraises:
            raise Untranslatable("cli.py:%d: handler for %s does not set exit_code exactly once (or exits/re-raises itself)" % (h.lineno, name))
        writes_out = any(isinstance(c, ast.Call) and isinstance(c.func, ast.Attribute) and c.func.attr == "write" and isinstance(c.func.value, ast.Attribute)
                         and c.func.value.attr == "output" for c in ast.walk(h))
        handlers.append((name, codes[0], writes_out))
    # the finally block must turn exit_code into the exit status
    fin_ok = any(isinstance(s, ast.If) and ast.unparse(s.test) == "exit_code is not None" and any(is_sys_exit(c) and ast.unparse(c.args[0]) == "exit_code" for c in ast.walk(s)) for s in t.finalbody)
    if not fin_ok:
        raise Untranslatable("cli.py: the finally block no longer exits with exit_code")
    # raising the in-band ValidationFailure so that it reaches its handler
    raises_failure = any(isinstance(s, ast.If) and "isinstance(v_graph, BaseException)" in ast.unparse(s.test) and any(isinstance(r, ast.Raise) for r in s.body) for s in t.body)
    # exits before the try (input errors) and the final exit
    early = [c.args[0].value for s in fn.body[:idx] for c in ast.walk(s) if is_sys_exit(c) and c.args and isinstance(c.args[0], ast.Constant)]
    after = [c for s in fn.body[idx + 1:] for c in ast.walk(s) if is_sys_exit(c)]
    if len(after) != 1 or ast.unparse(after[0].args[0]) != "0 if is_conform else 1":
        raise Untranslatable("cli.py: the final exit is not `sys.exit(0 if is_conform else 1)`")
    # the report is written before that final exit: some args.output.write(...) in the statements after the try
    writes_after = any(isinstance(c, ast.Call) and isinstance(c.func, ast.Attribute) and c.func.attr == "write" and "args.output" in ast.unparse(c.func.value)
                       for s in fn.body[idx + 1:] for c in ast.walk(s))
    # errors.py: class name -> first base
    etree = ast.parse(open(os.path.join(REPO, "pyshacl", "errors.py")).read())
    classes = []
    for n in etree.body:
        if isinstance(n, ast.ClassDef):
            if len(n.bases) != 1 or not isinstance(n.bases[0], ast.Name):
                raise Untranslatable("errors.py:%d: class %s without a single named base" % (n.lineno, n.name))
            classes.append((n.name, n.bases[0].id))
    # ---- the option plumbing: which argparse destinations reach which validate() keyword
    dests = []
    for n in ast.walk(tree):
        if isinstance(n, ast.Call) and isinstance(n.func, ast.Attribute) and n.func.attr == "add_argument":
            d = [k.value.value for k in n.keywords if k.arg == "dest" and isinstance(k.value, ast.Constant)]
            if d:
                dests.append(d[0])
            elif n.args and isinstance(n.args[0], ast.Constant) and not n.args[0].value.startswith("-"):
                dests.append(n.args[0].value)
    passed = []   # (args attribute read in the guarding test or value, keyword)
    def attrs_of(node):
        return sorted({a.attr for a in ast.walk(node) if isinstance(a, ast.Attribute) and isinstance(a.value, ast.Name) and a.value.id == "args"})
    def scan(stmts, guards):
        for st in stmts:
            if isinstance(st, ast.If):
                scan(st.body, guards + attrs_of(st.test))
                scan(st.orelse, guards + attrs_of(st.test))
            elif isinstance(st, ast.Try):
                scan(st.body, guards); scan(st.orelse, guards)
            elif isinstance(st, ast.Assign) and len(st.targets) == 1 and isinstance(st.targets[0], ast.Subscript) \
                    and isinstance(st.targets[0].value, ast.Name) and st.targets[0].value.id == "validator_kwargs" and isinstance(st.targets[0].slice, ast.Constant):
                for a in sorted(set(guards + attrs_of(st.value))):
                    passed.append((a, st.targets[0].slice.value))
            elif isinstance(st, ast.Assign) and len(st.targets) == 1 and isinstance(st.targets[0], ast.Name) and st.targets[0].id == "validator_kwargs" and isinstance(st.value, ast.Dict):
                for k, v in zip(st.value.keys, st.value.values):
                    for a in attrs_of(v):
                        passed.append((a, k.value))
    scan(fn.body[:idx], [])
    # the keywords validate() understands: named parameters and kwargs.pop/get keys
    vtree = ast.parse(open(os.path.join(REPO, "pyshacl", "entrypoints.py")).read())
    vfn = [n for n in vtree.body if isinstance(n, ast.FunctionDef) and n.name == "validate"][0]
    understood = [a.arg for a in vfn.args.kwonlyargs] + [a.arg for a in vfn.args.args]
    for n in ast.walk(vfn):
        if isinstance(n, ast.Call) and isinstance(n.func, ast.Attribute) and n.func.attr in ("pop", "get") and isinstance(n.func.value, ast.Name) and n.func.value.id == "kwargs" \
                and n.args and isinstance(n.args[0], ast.Constant):
            understood.append(n.args[0].value)
    lines = ["(* GENERATED by translator/t3.py from /repo/pyshacl/cli.py and errors.py - do not edit *)",
             "From Coq Require Import List NArith String Bool.", "Import ListNotations.", "Open Scope string_scope.", "",
             "(* except clauses around validate(), in order: (class, exit_code, writes to the report output) *)",
             "Definition cli_handlers : list (string * N * bool) :=\n  [%s]." % ";\n   ".join("(%s, %d%%N, %s)" % (cstr(n), c, "true" if w else "false") for n, c, w in handlers), "",
             "Definition cli_raises_inband_failure : bool := %s." % ("true" if raises_failure else "false"),
             "Definition cli_early_exits : list N := [%s]." % "; ".join("%d%%N" % e for e in early),
             "Definition cli_final_exit_conform : N := 0%N.", "Definition cli_final_exit_nonconform : N := 1%N.",
             "Definition cli_report_written_before_final_exit : bool := %s." % ("true" if writes_after else "false"), "",
             "(* pyshacl/errors.py: class and its base *)",
             "Definition error_classes : list (string * string) :=\n  [%s]." % "; ".join("(%s, %s)" % (cstr(a), cstr(b)) for a, b in classes), "",
             "(* argparse destinations of the command line *)",
             "Definition cli_dests : list string := [%s]." % "; ".join(cstr(d) for d in dests),
             "(* (destination read, keyword of validate() it reaches) *)",
             "Definition cli_passed : list (string * string) :=\n  [%s]." % "; ".join("(%s, %s)" % (cstr(a), cstr(k)) for a, k in passed),
             "(* keywords validate() reads *)",
             "Definition validate_keywords : list string := [%s]." % "; ".join(cstr(k) for k in sorted(set(understood))), ""]
    text = "\n".join(lines)
    out = os.path.join(os.path.dirname(HERE), "coq", "Gen", "T3.v")
    if not os.path.exists(out) or open(out).read() != text:
        open(out, "w").write(text)


if __name__ == "__main__":
    try:
        main()
    except Untranslatable as e:
        print("untranslatable:", e)
        sys.exit(1)
