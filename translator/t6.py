#!/venv/bin/python
"""T6: census of every `raise` statement on the validate() path of /repo/pyshacl, and of the calls of the few helper
functions whose undocumented exception is meant to be handled by their callers, regenerated into coq/Gen/T6.v.
Fail-closed: a raise whose operand is neither a class call, a class name, a caught variable nor empty stops the
translation."""
import ast, builtins, os, sys
HERE = os.path.dirname(os.path.abspath(__file__))
sys.path.insert(0, HERE)
from py2mini import Untranslatable, cstr

REPO = os.environ.get("VERIF_REPO", "/repo")
# not on the validate() path: the command lines (their contract is T3's), the optional HTTP server, the JavaScript extra
# (needs pyduktape2), the DASH test-case comparison helper and the module runner
OUT_OF_SCOPE = ("pyshacl/cli.py", "pyshacl/cli_rules.py", "pyshacl/sh_http.py", "pyshacl/__main__.py", "pyshacl/validator_conformance.py")
OUT_OF_SCOPE_DIRS = ("pyshacl/extras/",)

# helper functions that signal with an undocumented class which their callers are expected to handle: callee -> class
HANDLED_BY_CALLERS = {"compare_literal": "TypeError", "order_graph_literal": "TypeError", "compare_node": "TypeError", "compare_blank_node": "TypeError",
                      "get_shacl_function": "KeyError", "get_shacl_target_type": "KeyError", "find_node_named_graph": "LookupError"}
# builtin hierarchy as far as the handlers of pyshacl need it
BUILTIN_EXC = {n for n in dir(builtins) if isinstance(getattr(builtins, n), type) and issubclass(getattr(builtins, n), BaseException)}


def in_scope(rel):
    return rel.endswith(".py") and rel not in OUT_OF_SCOPE and not any(rel.startswith(d) for d in OUT_OF_SCOPE_DIRS)


def handler_classes(h):
    if h.type is None:
        return ["BaseException"]
    if isinstance(h.type, ast.Tuple):
        return [ast.unparse(e).split(".")[-1] for e in h.type.elts]
    return [ast.unparse(h.type).split(".")[-1]]


def mro(cls, local):
    """names of cls and its ancestors, for builtins and for classes of errors.py (`local`: name -> base)"""
    out = []
    while cls is not None and cls not in out:
        out.append(cls)
        if cls in local:
            cls = local[cls]
        elif cls in BUILTIN_EXC:
            b = getattr(builtins, cls).__mro__
            out.extend(c.__name__ for c in b[1:] if c is not object)
            cls = None
        else:
            cls = None
    return out


class Census(ast.NodeVisitor):
    def __init__(self, rel, local):
        self.rel, self.local = rel, local
        self.scope = []          # enclosing class / function names
        self.tries = []          # stack of handler-class lists of the try bodies we are inside
        self.caught_vars = []    # names bound by `except X as e` we are inside
        self.sites, self.calls, self.asserts = [], [], []

    def qual(self):
        return ".".join(self.scope) or "<module>"

    def visit_ClassDef(self, n):
        self.scope.append(n.name); self.generic_visit(n); self.scope.pop()

    def visit_FunctionDef(self, n):
        saved = (self.tries, self.caught_vars)
        self.tries, self.caught_vars = [], []      # a nested def runs later, outside the enclosing try
        self.scope.append(n.name); self.generic_visit(n); self.scope.pop()
        self.tries, self.caught_vars = saved
    visit_AsyncFunctionDef = visit_FunctionDef

    def visit_Try(self, n):
        self.tries.append([c for h in n.handlers for c in handler_classes(h)])
        for s in n.body:
            self.visit(s)
        self.tries.pop()
        for h in n.handlers:
            if h.name:
                self.caught_vars.append(h.name)
            for s in h.body:
                self.visit(s)
            if h.name:
                self.caught_vars.pop()
        for s in n.orelse + n.finalbody:
            self.visit(s)

    def caught_here(self, cls):
        anc = mro(cls, self.local)
        return any(c in anc for t in self.tries for c in t)

    def visit_Raise(self, n):
        e = n.exc
        if e is None:
            cls = "<reraise>"
        elif isinstance(e, ast.Call) and isinstance(e.func, (ast.Name, ast.Attribute)):
            cls = ast.unparse(e.func).split(".")[-1]
        elif isinstance(e, ast.Name) and (e.id in self.local or e.id in BUILTIN_EXC):
            cls = e.id
        elif isinstance(e, ast.Name) and e.id in self.caught_vars:
            cls = "<reraise>"
        elif isinstance(e, ast.Name):
            cls = "<variable>"      # a value computed elsewhere (e.g. an exception object returned in-band)
        else:
            raise Untranslatable("%s:%d: raise with an operand outside the census language: %s" % (self.rel, n.lineno, ast.unparse(e)[:60]))
        if cls not in ("<reraise>", "<variable>") and cls not in self.local and cls not in BUILTIN_EXC and cls not in ("SPARQLError",):
            raise Untranslatable("%s:%d: raise of a class the census does not know: %s" % (self.rel, n.lineno, cls))
        self.sites.append((self.rel, self.qual(), cls, cls not in ("<reraise>", "<variable>") and self.caught_here(cls)))
        self.generic_visit(n)

    def visit_Assert(self, n):
        # `assert False` / `assert isinstance(...)`: an AssertionError is not a documented channel either
        self.asserts.append((self.rel, self.qual()))
        self.generic_visit(n)

    def visit_Call(self, n):
        f = n.func
        name = f.id if isinstance(f, ast.Name) else f.attr if isinstance(f, ast.Attribute) else None
        if name in HANDLED_BY_CALLERS:
            self.calls.append((self.rel, self.qual(), name, self.caught_here(HANDLED_BY_CALLERS[name])))
        self.generic_visit(n)


def main():
    etree = ast.parse(open(os.path.join(REPO, "pyshacl", "errors.py")).read())
    local = {}
    for n in etree.body:
        if isinstance(n, ast.ClassDef):
            if len(n.bases) != 1 or not isinstance(n.bases[0], ast.Name):
                raise Untranslatable("errors.py:%d: class %s without a single named base" % (n.lineno, n.name))
            local[n.name] = n.bases[0].id
    sites, calls, files, asserts = [], [], [], []
    for root, dirs, fs in os.walk(os.path.join(REPO, "pyshacl")):
        dirs.sort()
        for f in sorted(fs):
            rel = os.path.relpath(os.path.join(root, f), REPO)
            if not in_scope(rel):
                continue
            files.append(rel)
            c = Census(rel, local)
            c.visit(ast.parse(open(os.path.join(REPO, rel), encoding="utf-8").read()))
            sites += c.sites
            calls += c.calls
            asserts += c.asserts
    b = lambda x: "true" if x else "false"
    def fold(rows, fmt):
        # one line per (file, function, class, flag) with its multiplicity: the census is a multiset
        agg = {}
        for r in rows:
            agg[r] = agg.get(r, 0) + 1
        return ";\n   ".join(fmt(r, k) for r, k in sorted(agg.items()))
    out = ["(* GENERATED by translator/t6.py from every module of /repo/pyshacl on the validate() path - do not edit *)",
           "From Coq Require Import List NArith String Bool.", "Import ListNotations.", "Open Scope string_scope.", "",
           "(* every raise statement: (file, enclosing function, class raised, inside a try of the same function whose handlers",
           "   catch that class, how many such statements).  <reraise>: `raise` / `raise e` of a caught exception;",
           "   <variable>: a value computed elsewhere *)",
           "Definition raise_sites : list (string * string * string * bool * N) :=\n  [%s].\n"
           % fold(sites, lambda r, k: "(%s, %s, %s, %s, %d%%N)" % (cstr(r[0]), cstr(r[1]), cstr(r[2]), b(r[3]), k)),
           "(* calls of the helpers that signal with an undocumented class their callers handle:",
           "   (file, enclosing function, callee, inside a try catching the callee's class, how many) *)",
           "Definition helper_calls : list (string * string * string * bool * N) :=\n  [%s].\n"
           % fold(calls, lambda r, k: "(%s, %s, %s, %s, %d%%N)" % (cstr(r[0]), cstr(r[1]), cstr(r[2]), b(r[3]), k)),
           "(* every assert statement: (file, enclosing function, how many) *)",
           "Definition assert_sites : list (string * string * N) :=\n  [%s].\n" % fold(asserts, lambda r, k: "(%s, %s, %d%%N)" % (cstr(r[0]), cstr(r[1]), k)),
           "Definition helper_class : list (string * string) :=\n  [%s].\n" % "; ".join("(%s, %s)" % (cstr(a), cstr(c)) for a, c in sorted(HANDLED_BY_CALLERS.items())),
           "(* pyshacl/errors.py: class and its base *)",
           "Definition census_error_classes : list (string * string) :=\n  [%s].\n" % "; ".join("(%s, %s)" % (cstr(a), cstr(c)) for a, c in local.items()),
           "Definition census_files : list string :=\n  [%s].\n" % "; ".join(cstr(f) for f in files)]
    dest = os.path.join(os.path.dirname(HERE), "coq", "Gen", "T6.v")
    text = "\n".join(out)
    if not os.path.exists(dest) or open(dest).read() != text:
        open(dest, "w").write(text)
    print("T6: ok (%d raise statements, %d helper calls, %d assert statements, %d files)" % (len(sites), len(calls), len(asserts), len(files)))


if __name__ == "__main__":
    try:
        main()
    except Untranslatable as e:
        print("T6: UNTRANSLATABLE: %s" % e)
        sys.exit(3)
