"""Fail-closed translator from a small Python subset (as used by pySHACL's pipeline code) to the PyMini deep
embedding (coq/Mini/PyMini.v). Anything outside the subset raises Untranslatable(file:line): the check then
treats the obligation as broken."""
import ast


class Untranslatable(Exception):
    pass


def cstr(s):
    return '"' + s.replace('"', '""') + '"'


class Translator:
    def __init__(self, filename, methods=(), whitelist=(), constants=None, opaque_loops=None):
        self.filename = filename
        self.methods = set(methods)          # methods of the same class that are translated too
        self.whitelist = set(whitelist)      # callees with a summary in PyMini.call_summary
        self.constants = constants or {}     # module-level names -> python constant
        self.opaque_loops = opaque_loops or {}  # name of the loop variable -> event call standing for the loop

    def fail(self, node, why):
        raise Untranslatable("%s:%s: %s (%s)" % (self.filename, getattr(node, "lineno", "?"), why, type(node).__name__))

    # ---------------- expressions
    def const(self, v):
        if v is None:
            return "(EConst VNone)"
        if v is True or v is False:
            return "(EConst (VBool %s))" % ("true" if v else "false")
        if isinstance(v, str):
            return "(EConst (VStr %s))" % cstr(v)
        raise ValueError(v)

    def value(self, v):
        if v is None:
            return "VNone"
        if v is True or v is False:
            return "(VBool %s)" % ("true" if v else "false")
        if isinstance(v, str):
            return "(VStr %s)" % cstr(v)
        raise ValueError(v)

    def is_self(self, n):
        return isinstance(n, ast.Name) and n.id == "self"

    def is_logging(self, call):
        f = call.func
        if isinstance(f, ast.Attribute) and f.attr in ("debug", "info", "warning", "error"):
            v = f.value
            if (isinstance(v, ast.Attribute) and v.attr == "logger") or (isinstance(v, ast.Name) and v.id in ("logger", "log")):
                return True
        return False

    def expr(self, e):
        if isinstance(e, ast.Constant):
            try:
                return self.const(e.value)
            except ValueError:
                self.fail(e, "constant of unsupported type")
        if isinstance(e, ast.Name):
            if e.id in self.constants:
                return self.const(self.constants[e.id])
            return "(EName %s)" % cstr(e.id)
        if isinstance(e, ast.Attribute):
            if self.is_self(e.value):
                return "(ESelf %s)" % cstr(e.attr)
            if isinstance(e.value, ast.Name):
                return "(EName %s)" % cstr(e.value.id + "." + e.attr)
            self.fail(e, "attribute of a compound expression")
        if isinstance(e, ast.Subscript):
            if isinstance(e.slice, ast.Constant) and isinstance(e.slice.value, str):
                if isinstance(e.value, ast.Attribute) and self.is_self(e.value.value) and e.value.attr == "options":
                    return "(EOpt %s None)" % cstr(e.slice.value)
                if isinstance(e.value, ast.Name):
                    return "(EName %s)" % cstr("%s[%s]" % (e.value.id, e.slice.value))
            self.fail(e, "subscript")
        if isinstance(e, ast.UnaryOp) and isinstance(e.op, ast.Not):
            return "(ENot %s)" % self.expr(e.operand)
        if isinstance(e, ast.BoolOp):
            op = "EAnd" if isinstance(e.op, ast.And) else "EOr"
            parts = [self.expr(v) for v in e.values]
            out = parts[-1]
            for p in reversed(parts[:-1]):
                out = "(%s %s %s)" % (op, p, out)
            return out
        if isinstance(e, ast.Compare) and len(e.ops) == 1:
            op, a, b = e.ops[0], e.left, e.comparators[0]
            if isinstance(op, (ast.Is, ast.IsNot)) and isinstance(b, ast.Constant) and b.value is None:
                return "(%s %s)" % ("EIsNone" if isinstance(op, ast.Is) else "EIsNotNone", self.expr(a))
            if isinstance(op, (ast.Eq, ast.NotEq)):
                return "(%s %s %s)" % ("EEq" if isinstance(op, ast.Eq) else "ENe", self.expr(a), self.expr(b))
            self.fail(e, "comparison operator")
        if isinstance(e, ast.IfExp):
            return "(EIf %s %s %s)" % (self.expr(e.test), self.expr(e.body), self.expr(e.orelse))
        if isinstance(e, ast.Call):
            return self.call(e)
        self.fail(e, "expression outside the subset")

    def call(self, c):
        f = c.func
        # self.options.get(k, default)
        if (isinstance(f, ast.Attribute) and f.attr == "get" and isinstance(f.value, ast.Attribute)
                and self.is_self(f.value.value) and f.value.attr == "options"):
            if not c.args or not isinstance(c.args[0], ast.Constant):
                self.fail(c, "options.get with a non-constant key")
            d = "None"
            if len(c.args) > 1:
                if not isinstance(c.args[1], ast.Constant):
                    self.fail(c, "options.get with a non-constant default")
                d = "(Some %s)" % self.value(c.args[1].value)
            else:
                d = "(Some VNone)"
            return "(EOpt %s %s)" % (cstr(c.args[0].value), d)
        if isinstance(f, ast.Name) and f.id == "str" and len(c.args) == 1:
            return "(EStr %s)" % self.expr(c.args[0])
        if isinstance(f, ast.Name) and f.id == "isinstance" and len(c.args) == 2 and isinstance(c.args[0], ast.Name):
            # an atomic predicate about an argument's type, valued by the environment
            return "(EName %s)" % cstr("isinstance:" + c.args[0].id)
        name = None
        if isinstance(f, ast.Name):
            name = f.id
        elif isinstance(f, ast.Attribute) and self.is_self(f.value):
            name = f.attr
        if name is None or (name not in self.whitelist and name not in self.methods):
            self.fail(c, "call of %r is not white-listed" % (ast.unparse(f),))
        # keyword arguments that do not carry graph objects are dropped; others are appended in source order
        args = [self.expr(a) for a in c.args]
        for kw in c.keywords:
            if kw.arg in ("logger", "identifier", "focus_nodes", "debug", "rdf_format", "multigraph", "do_owl_imports"):
                continue
            args.append(self.expr(kw.value))
        return "(ECall %s [%s])" % (cstr(name), "; ".join(args))

    # ---------------- statements
    def block(self, stmts):
        out = []
        for s in stmts:
            out.extend(self.stmt(s))
        return out

    def stmt(self, s):
        if isinstance(s, ast.Expr):
            if isinstance(s.value, ast.Constant) and isinstance(s.value.value, str):
                return []  # docstring
            if isinstance(s.value, ast.Call) and self.is_logging(s.value):
                return []  # logging carries no decision
            return ["SExpr %s" % self.expr(s.value)]
        if isinstance(s, ast.Pass):
            return []
        if isinstance(s, (ast.Assign, ast.AnnAssign)):
            targets = s.targets if isinstance(s, ast.Assign) else [s.target]
            if len(targets) != 1 or s.value is None:
                self.fail(s, "assignment form")
            t = targets[0]
            if isinstance(t, ast.Name):
                return ["SAssign %s %s" % (cstr(t.id), self.expr(s.value))]
            if isinstance(t, ast.Attribute) and self.is_self(t.value):
                return ["SSetSelf %s %s" % (cstr(t.attr), self.expr(s.value))]
            if isinstance(t, ast.Attribute) and isinstance(t.value, ast.Name):
                return ["SAssign %s %s" % (cstr(t.value.id + "." + t.attr), self.expr(s.value))]
            self.fail(s, "assignment target")
        if isinstance(s, ast.If):
            # branches that only log are decisions without effect
            return ["SIf %s [%s] [%s]" % (self.expr(s.test), "; ".join(self.block(s.body)), "; ".join(self.block(s.orelse)))]
        if isinstance(s, ast.Raise):
            exc = s.exc
            if isinstance(exc, ast.Call):
                exc = exc.func
            if isinstance(exc, ast.Name):
                return ["SRaise %s" % cstr(exc.id)]
            self.fail(s, "raise of a non-class")
        if isinstance(s, ast.Return):
            return ["SReturn %s" % (self.expr(s.value) if s.value is not None else "(EConst VNone)")]
        if isinstance(s, ast.Try):
            if s.handlers or s.orelse:
                self.fail(s, "try with except/else")
            return ["STry [%s] [%s]" % ("; ".join(self.block(s.body)), "; ".join(self.block(s.finalbody)))]
        if isinstance(s, ast.For):
            # a loop is only accepted as an opaque, effect-free unit registered by the driver
            if isinstance(s.target, ast.Name) and s.target.id in self.opaque_loops:
                for n in ast.walk(s):
                    if isinstance(n, ast.Call):
                        f = n.func
                        nm = f.id if isinstance(f, ast.Name) else (f.attr if isinstance(f, ast.Attribute) else None)
                        if nm in self.whitelist and nm != self.opaque_loops[s.target.id]:
                            self.fail(n, "white-listed effect inside an opaque loop")
                return ["SExpr (ECall %s [])" % cstr(self.opaque_loops[s.target.id])]
            self.fail(s, "loop")
        self.fail(s, "statement outside the subset")


def find_method(tree, cls, name):
    for n in tree.body:
        if isinstance(n, ast.ClassDef) and n.name == cls:
            for m in n.body:
                if isinstance(m, ast.FunctionDef) and m.name == name:
                    no_decorators(m, "%s.%s" % (cls, name))
                    return m
    raise Untranslatable("method %s.%s not found" % (cls, name))


def no_decorators(fn, where):
    """a decorator (a cache, a wrapper) changes what a call of the function does without changing its body: refuse"""
    if fn.decorator_list:
        raise Untranslatable("%s:%d: decorated with %s - the body alone no longer says what a call does" % (where, fn.lineno, ", ".join("@" + ast.unparse(d) for d in fn.decorator_list)))


def find_stmt(stmts, pred, what):
    hits = [i for i, s in enumerate(stmts) if pred(s)]
    if len(hits) != 1:
        raise Untranslatable("sentinel %r found %d times" % (what, len(hits)))
    return hits[0]


def is_assign_to(s, target):
    """target: 'name' or 'self.attr'"""
    if isinstance(s, (ast.Assign, ast.AnnAssign)):
        t = s.targets[0] if isinstance(s, ast.Assign) else s.target
        return ast.unparse(t) == target
    return False
