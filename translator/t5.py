#!/venv/bin/python
"""T5: ShapesGraph._check_rdf_lists (pyshacl/shapes_graph.py) regenerated from /repo into coq/Gen/T5.v as a program of the
language of coq/Closure/ListCheck.v. Fail-closed: any statement outside the recognised forms stops the translation."""
import ast, os, sys
HERE = os.path.dirname(os.path.abspath(__file__))
sys.path.insert(0, HERE)
from py2mini import Untranslatable, no_decorators

REPO = os.environ.get("VERIF_REPO", "/repo")
FILE = "pyshacl/shapes_graph.py"


def name_of(n):
    return n.id if isinstance(n, ast.Name) else None


def is_raise_shape_load(s):
    return isinstance(s, ast.Raise) and isinstance(s.exc, ast.Call) and name_of(s.exc.func) == "ShapeLoadError"


def only_raise(body):
    return len(body) == 1 and is_raise_shape_load(body[0])


def cmp(test, left, op, right):
    return (isinstance(test, ast.Compare) and len(test.ops) == 1 and isinstance(test.ops[0], op) and ast.unparse(test.left) == left
            and ast.unparse(test.comparators[0]) == right)


def strip_doc(body):
    return [s for s in body if not (isinstance(s, ast.Expr) and isinstance(s.value, ast.Constant) and isinstance(s.value.value, str))]


def main():
    tree = ast.parse(open(os.path.join(REPO, FILE), encoding="utf-8").read())
    cls = [n for n in tree.body if isinstance(n, ast.ClassDef) and n.name == "ShapesGraph"]
    if len(cls) != 1:
        raise Untranslatable("%s: class ShapesGraph not found" % FILE)
    methods = {n.name: n for n in cls[0].body if isinstance(n, ast.FunctionDef)}
    if "_check_rdf_lists" not in methods:
        raise Untranslatable("%s: ShapesGraph._check_rdf_lists not found" % FILE)
    # the constructor calls it, before anything reads a list
    init = strip_doc(methods["__init__"].body)
    calls = [i for i, s in enumerate(init) if isinstance(s, ast.Expr) and ast.unparse(s.value) == "self._check_rdf_lists()"]
    system = [i for i, s in enumerate(init) if isinstance(s, ast.Expr) and ast.unparse(s.value) == "self._add_system_triples()"]
    # a direct child of __init__'s statement list (so not under any condition), no return before it
    called_first = len(calls) == 1 and (not system or calls[0] < system[0]) and not any(isinstance(n, ast.Return) for s in init[:calls[0]] for n in ast.walk(s))
    fn = methods["_check_rdf_lists"]
    no_decorators(fn, FILE + ": ShapesGraph._check_rdf_lists")
    no_decorators(methods["__init__"], FILE + ": ShapesGraph.__init__")
    body = strip_doc(fn.body)
    i = 0
    if not (isinstance(body[i], ast.Assign) and ast.unparse(body[i]) == "rest_of = {}"):
        raise Untranslatable("%s:%d: expected `rest_of = {}`" % (FILE, body[i].lineno))
    i += 1
    # filling rest_of (first value wins) and rejecting a second, different rdf:rest
    fl = body[i]
    if not (isinstance(fl, ast.For) and ast.unparse(fl.target) == "(s, o)" and ast.unparse(fl.iter) == "self.graph.subject_objects(RDF_rest)" and not fl.orelse):
        raise Untranslatable("%s:%d: expected the loop over self.graph.subject_objects(RDF_rest)" % (FILE, fl.lineno))
    two_rest = False
    if len(fl.body) == 1 and isinstance(fl.body[0], ast.If) and not fl.body[0].orelse and cmp(fl.body[0].test, "rest_of.setdefault(s, o)", ast.NotEq, "o") and only_raise(fl.body[0].body):
        two_rest = True
    elif len(fl.body) == 1 and isinstance(fl.body[0], ast.Expr) and ast.unparse(fl.body[0].value) == "rest_of.setdefault(s, o)":
        two_rest = False
    else:
        raise Untranslatable("%s:%d: the rest_of loop does something else than setdefault (and rejecting a second value)" % (FILE, fl.lineno))
    i += 1
    two_first = False
    if (isinstance(body[i], ast.For) and name_of(body[i].target) == "s" and name_of(body[i].iter) == "rest_of" and len(body[i].body) == 1 and isinstance(body[i].body[0], ast.If)
            and cmp(body[i].body[0].test, "len(set(self.graph.objects(s, RDF_first)))", ast.Gt, "1") and only_raise(body[i].body[0].body) and not body[i].body[0].orelse):
        two_first = True
        i += 1
    if not (isinstance(body[i], ast.Assign) and ast.unparse(body[i]) == "checked = set()"):
        raise Untranslatable("%s:%d: expected `checked = set()`" % (FILE, body[i].lineno))
    i += 1
    outer = body[i]
    if not (isinstance(outer, ast.For) and name_of(outer.target) == "start" and name_of(outer.iter) == "rest_of" and not outer.orelse and i == len(body) - 1):
        raise Untranslatable("%s:%d: expected the final loop `for start in rest_of:`" % (FILE, outer.lineno))
    ob = list(outer.body)
    skip = False
    if ob and isinstance(ob[0], ast.If) and cmp(ob[0].test, "start", ast.In, "checked") and len(ob[0].body) == 1 and isinstance(ob[0].body[0], ast.Continue) and not ob[0].orelse:
        skip = True
        ob = ob[1:]
    if not (len(ob) >= 3 and ast.unparse(ob[0]) == "seen = set()" and ast.unparse(ob[1]) == "current = start" and isinstance(ob[2], ast.While) and not ob[2].orelse):
        raise Untranslatable("%s:%d: expected `seen = set()`, `current = start` and the while loop" % (FILE, outer.lineno))
    w = ob[2]
    conds = w.test.values if isinstance(w.test, ast.BoolOp) and isinstance(w.test.op, ast.And) else [w.test]
    in_dom = not_checked = False
    for c in conds:
        if cmp(c, "current", ast.In, "rest_of"):
            in_dom = True
        elif cmp(c, "current", ast.NotIn, "checked"):
            not_checked = True
        else:
            raise Untranslatable("%s:%d: loop condition outside the language: %s" % (FILE, w.lineno, ast.unparse(c)))
    stmts = []
    for s in w.body:
        if isinstance(s, ast.If) and not s.orelse and only_raise(s.body) and cmp(s.test, "current", ast.In, "seen"):
            stmts.append("WIfSeenRaise")
        elif isinstance(s, ast.If) and not s.orelse and only_raise(s.body) and cmp(s.test, "current", ast.Eq, "start"):
            stmts.append("WIfStartRaise")
        elif isinstance(s, ast.Expr) and ast.unparse(s.value) == "seen.add(current)":
            stmts.append("WAddSeen")
        elif isinstance(s, ast.Expr) and ast.unparse(s.value) == "checked.add(current)":
            stmts.append("WAddChecked")
        elif isinstance(s, ast.Assign) and ast.unparse(s) == "current = rest_of[current]":
            stmts.append("WAdvance")
        else:
            raise Untranslatable("%s:%d: statement outside the list-walk language: %s" % (FILE, s.lineno, ast.unparse(s)[:80]))
    rest = ob[3:]
    update = False
    if len(rest) == 1 and isinstance(rest[0], ast.Expr) and ast.unparse(rest[0].value) == "checked.update(seen)":
        update = True
    elif rest:
        raise Untranslatable("%s:%d: unexpected statement after the while loop: %s" % (FILE, rest[0].lineno, ast.unparse(rest[0])[:80]))
    b = lambda x: "true" if x else "false"
    out = ["(* GENERATED by translator/t5.py from %s (ShapesGraph._check_rdf_lists and its call in __init__) - do not edit *)" % FILE,
           "From Coq Require Import List Bool.", "From Verif Require Import Closure.ListCheck.", "Import ListNotations.", "",
           "Definition check_rdf_lists_prog : lprog :=\n  {| l_skip_checked_start := %s; l_cond_in_dom := %s; l_cond_not_checked := %s;\n     l_body := [%s]; l_update_checked := %s |}.\n"
           % (b(skip), b(in_dom), b(not_checked), "; ".join(stmts), b(update)),
           "(* a list node with a second, different rdf:rest / with two rdf:first values is rejected before the walk *)",
           "Definition rejects_second_rest : bool := %s.\nDefinition rejects_second_first : bool := %s.\n" % (b(two_rest), b(two_first)),
           "(* ShapesGraph.__init__ calls the check unconditionally, before the system triples are added and before any list is read *)",
           "Definition check_called_by_constructor : bool := %s.\n" % b(called_first)]
    dest = os.path.join(os.path.dirname(HERE), "coq", "Gen", "T5.v")
    text = "\n".join(out)
    if not os.path.exists(dest) or open(dest).read() != text:
        open(dest, "w").write(text)
    print("T5: ok")


if __name__ == "__main__":
    try:
        main()
    except Untranslatable as e:
        print("T5: UNTRANSLATABLE: %s" % e)
        sys.exit(3)
