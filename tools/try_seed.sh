#!/bin/bash
# usage: try_seed.sh <seed dir with patch.diff, demo.py> <property ids...>
# Confirms the demo (passes on /repo, fails with the patch), runs the given checks with the patch applied, reverts.
D=$1; shift
cd /repo || exit 2
if ! git diff --quiet; then echo "/repo has local changes"; exit 2; fi
echo "== demo on unchanged /repo"; PYTHONPATH=/repo /venv/bin/python $D/demo.py >/tmp/seed_demo0.log 2>&1; echo "exit $?"
git apply $D/patch.diff || { echo "patch does not apply"; exit 2; }
echo "== demo with patch"; PYTHONPATH=/repo /venv/bin/python $D/demo.py >/tmp/seed_demo1.log 2>&1; echo "exit $?"; tail -2 /tmp/seed_demo1.log
for p in "$@"; do
  echo "== check $p with patch"; (cd /verif && ./check $p 2>/dev/null | grep -E "VIOLATION|: ok|FAIL" | head -4)
done
git -C /repo checkout -- . ; git -C /repo status --short
# the checks above regenerated coq/Gen/*.v from the patched tree: regenerate them from the clean one
for t in /verif/translator/t[0-9]*.py; do /venv/bin/python $t >/dev/null 2>&1; done
rm -f /verif/replays/*.json
