#!/bin/bash
# Runs /repo's pinned suite (optionally on another tree: $1) and compares with BASELINE.json stable_pass.
TREE=${1:-/repo}
OUT=$(mktemp /tmp/suite.XXXXXX.xml)
cd "$TREE" && PYTHONPATH="$TREE" /venv/bin/python -m pytest -q -p no:cacheprovider --timeout=900 --continue-on-collection-errors -n 12 --junitxml=$OUT >/dev/null 2>&1
/venv/bin/python - "$OUT" "$TREE" <<'PY'
import sys, json, xml.etree.ElementTree as ET
out, tree = sys.argv[1], sys.argv[2]
base = set(json.load(open('/root/.vp/BASELINE.json'))['stable_pass'])
passed=set()
for tc in ET.parse(out).getroot().iter('testcase'):
    ok = not any(ch.tag in ('failure','error','skipped') for ch in tc)
    name = tc.get('classname')+'::'+tc.get('name')
    name = name.replace(tree+'/', '/repo/') if tree != '/repo' else name
    if ok: passed.add(name)
missing = sorted(base - passed)
print("baseline", len(base), "passed-in-baseline", len(base & passed), "missing", len(missing))
for m in missing[:20]: print("  MISSING", m)
sys.exit(1 if missing else 0)
PY
rc=$?; rm -f $OUT; exit $rc
