#!/bin/bash
# Re-checks the compiled development (all Props modules and everything they depend on) with Coq's independent
# checker and prints its context summary (axioms, type-in-type, unsafe fixpoints, assumed positivity).
cd "$(dirname "$0")/../coq" || exit 2
mods=$(ls Props/C*.v | sed 's#Props/\(.*\)\.v#Verif.Props.\1#')
timeout 3600 coqchk -o -silent -Q . Verif $mods 2>&1 | sed -n '/CONTEXT SUMMARY/,$p'
