#!/usr/bin/env python3
"""Regenerates MANIFEST.json from the table below (kept in one place so it is always valid)."""
import json, os
HERE = os.path.dirname(os.path.dirname(os.path.abspath(__file__)))
BASE_NOTE = ("Trusted: Coq 8.16.1 kernel + vm_compute (no native_compute); no axioms (Print Assumptions must say "
             "'Closed under the global context'); the harness generators/encoders; the hand-written Gallina model is tied "
             "to /repo by the differential correspondence run in the same check. ")
CLAIMED = {
 "C03": dict(
   text="Machine-checked proof (Coq) that the executable model of value_nodes_from_path computes exactly the SPARQL 1.1 "
        "property-path relation for every graph, path, focus, direction (soundness+completeness whenever it answers; "
        "totality with explicit fuel on arbitrary cyclic data for well-formed paths within depth 10; zero-length paths). "
        "The model is tied to /repo by differential correspondence on exhaustive small and random paths/graphs, through "
        "the internal function and through validate().",
   note=BASE_NOTE + "rdflib's triple store is modelled as list filters.",
   technique="Coq proof by induction on paths + worklist closure invariant; vm_compute correspondence against /repo",
   ref="4 (C03)"),
}
NOT_YET = {}
ALL = ["C%02d" % i for i in range(1, 21)]
REASONS = {}
def main():
    checks = []
    for pid in ALL:
        if pid in CLAIMED:
            c = CLAIMED[pid]
            checks.append({
                "property_id": pid,
                "quick_cmd": "./check %s --tier quick" % pid,
                "thorough_cmd": "./check %s --tier thorough" % pid,
                "evidence_file": "evidence/%s.json" % pid,
                "replay_cmd_template": "./check %s --replay {path}" % pid,
                "engine": "coq+correspondence",
                "level_claimed": {"category": c.get("category", "proof"), "text": c["text"], "design_ref": "DESIGN.md section " + c["ref"]},
                "level_note": c["note"],
                "technique": c["technique"],
            })
    na = [{"property_id": p, "reason": REASONS.get(p, "not claimed yet: the Coq model and correspondence for this property are not built in this revision (see DESIGN.md section 4 for the planned statement)")}
          for p in ALL if p not in CLAIMED]
    m = {
        "version": 1,
        "setup_cmd": "cd coq && coq_makefile -f _CoqProject -o Makefile && timeout 3000 make -j16",
        "hooks": {"guard": "PYSHACL_VERIF", "enable": "no source hooks: the harness imports /repo and monkey-patches from its own process", "baseline_off_cmd": "cd /repo && /venv/bin/python -m pytest -ra -q -p no:cacheprovider --timeout=900 --continue-on-collection-errors", "source_commits": [], "add_only": True},
        "engines": [{"name": "coq+correspondence", "path": "check", "serves_properties": sorted(CLAIMED), "kind_free_text": "Coq 8.16 development under coq/ (models, specs, proofs) + Python harness under harness/ that rebuilds the proofs, evaluates the models with vm_compute on generated cases and compares with /repo"}],
        "checks": checks,
        "not_applicable": na,
        "notes": "See DESIGN.md. Every check rebuilds the Coq development, re-checks Print Assumptions, and runs the correspondence against /repo's working tree.",
    }
    json.dump(m, open(os.path.join(HERE, "MANIFEST.json"), "w"), indent=1)
    print("claimed:", sorted(CLAIMED))
if __name__ == "__main__":
    main()
