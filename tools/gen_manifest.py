#!/usr/bin/env python3
"""Regenerates MANIFEST.json from the table below (kept in one place so it is always valid)."""
import json, os
HERE = os.path.dirname(os.path.dirname(os.path.abspath(__file__)))
BASE_NOTE = ("Trusted: Coq 8.16.1 kernel + vm_compute (no native_compute); no axioms (Print Assumptions must say "
             "'Closed under the global context'); the harness generators/encoders; the hand-written Gallina model is tied "
             "to /repo by the differential correspondence run in the same check. ")
CLAIMED = {
 "C03": dict(
   text="Machine-checked proof (Coq) that the executable model of value_nodes_from_path computes exactly the SPARQL 1.1 "
        "property-path relation for every graph, path, focus, direction (soundness+completeness whenever it answers; "
        "totality with explicit fuel on arbitrary cyclic data for well-formed paths within depth 10; zero-length paths). "
        "Corollaries (Paths/PathAlgebra.v): two paths denoting one relation get the same value nodes - double inverse, inverse of a sequence / alternative, q+ = q/q*, q* = (q+)?, closure of an inverse; monotone in the data graph. "
        "The model is tied to /repo by differential correspondence on exhaustive small and random paths/graphs, through "
        "the internal function and through validate().",
   note=BASE_NOTE + "rdflib's triple store is modelled as list filters.",
   technique="Coq proof by induction on paths + worklist closure invariant; vm_compute correspondence against /repo",
   ref="4 (C03)"),
}
CLAIMED.update({
 "C02": dict(
   text="Coq proof that the model of Shape.focus_nodes (five target kinds, implicit class targets through SHACL-instance of rdfs:Class in the shapes graph, "
        "rdflib's transitive subclass walk) returns, without duplicates, exactly the nodes the SHACL target semantics prescribes, on arbitrary graphs incl. "
        "subclass cycles; differential correspondence of Shape.focus_nodes and of validate() (sh:in () makes sh:focusNode enumerate the focus set). "
        "Tie A for the subclass walk itself: pyshacl/rdfutil/closure.py is regenerated (translator/t4.py) as work-list programs and proved to terminate on every graph with exactly the model's subclasses / superclasses, each once.",
   note=BASE_NOTE + "The shape-cache construction (_build_node_shape_cache) is exercised by correspondence only, not modelled.",
   technique="Coq proof (closure = clos_refl_trans, reuse of the C03 path theorems; loop invariant for the generated work-list programs) + translator t4 + vm_compute correspondence",
   ref="4 (C02)"),
 "C04": dict(
   text="Coq proofs about the executable model of Shape.validate and the shape-expecting components, for every environment (recursive or not), option setting "
        "and depth: conform <-> no results (shape and component level); not/and/or/xone/qualified depend on members' conformance only; every result is owned by "
        "the validated shape or a property shape reached through sh:property (no leak; details only under sh:node; severity of the owning shape); deactivated => conforms. "
        "Several sh:or / sh:and / sh:xone lists on one shape are separate constraints (answer over l :: ls = answers over [l] and ls together). "
        "Model tied to /repo by differential correspondence of full reports (multisets with nested details) on random nested shapes graphs.",
   note=BASE_NOTE + "Leaf components limited to class/nodeKind/min-maxCount/hasValue/in here (all core leaves: C01).",
   technique="Coq proof by induction on evaluator fuel over a model with the nested evaluator as parameter + vm_compute correspondence",
   ref="4 (C04)"),
 "C11": dict(
   text="Coq proofs: the verdict equals 'all reported top-level results have a waived severity' under every option combination (also with abort_on_first); "
        "turning allow_infos/allow_warnings on or off never changes the reported results; verdicts are monotone in the waiver. Correspondence plus metamorphic "
        "check on the real code over the four option combinations.",
   note=BASE_NOTE + "Holds for the code after the fix: commit 4cb5e8c in /repo (the pre-fix code is refuted by the check).",
   technique="Coq proof (loop invariant nw = not all_waived acc; extensionality of the evaluator) + correspondence + metamorphic relation on /repo",
   ref="4 (C11)"),
 "C12": dict(
   text="Coq proof of a simulation between the complete run and the abort_on_first run through every component, the constraint loop and the validator loop: same verdict, "
        "aborted results form a sub-list of the complete results with possibly fewer nested details, non-conforming => at least one result; for every environment, "
        "order of shapes/constraints and waiver setting. Correspondence and metamorphic check (abort on/off x waivers) on the real code.",
   note=BASE_NOTE,
   technique="Coq simulation proof (relation le_list + equal waiver status) + correspondence + metamorphic relation on /repo",
   ref="4 (C12)"),
 "C13": dict(
   text="Coq proofs: the focus_nodes filter narrows each shape's own targets and is not even an input of nested evaluation; target declarations are invisible to the evaluator "
        "(rewriting them anywhere in the environment changes no evaluation), hence use_shapes=U equals the run on the shapes graph with all other targets removed; both options apply U x F. "
        "Correspondence of the selection logic and metamorphic check against target-rewritten shapes graphs on the real code (IRIs and CURIEs).",
   note=BASE_NOTE + "CURIE expansion is exercised by the differential run only.",
   technique="Coq proof (environment-map invariance of the evaluator) + correspondence + metamorphic relation on /repo",
   ref="4 (C13)"),
 "C19": dict(
   text="Coq proofs for arbitrary cyclic shape references and cyclic data: the model never runs out of fuel max_validation_depth+1 (termination); a nested evaluation entered at/beyond the limit is the "
        "'too deep' failure; an Ok answer is unchanged under any larger limit (never silently truncated); non-recursive (ranked) shapes graphs below the limit never fail with 'too deep'; "
        "recursion_triggers is inert on ranked shapes graphs (report = report without back-out). Correspondence on chains around the limit (1..30) and random recursive shapes graphs under a wall-clock limit.",
   note=BASE_NOTE + "Python's own stack and wall-clock time are outside the model (probed by the 30 s limit per run).",
   technique="Coq proof (fuel/depth invariant, refinement order on results, rank argument) + vm_compute correspondence",
   ref="4 (C19)"),
})
CLAIMED.update({
 "C01": dict(
   text="Coq proofs that each of the 20 leaf core components of the model reports exactly the results its W3C textual definition prescribes (leaf_spec), lifted to shapes; "
        "range components and lessThan(OrEquals) proved equal to the SPARQL 1.1 operator mapping (exact rational numerics, code-point strings, booleans, dateTime with the timezone rule, date; "
        "everything else incomparable => violation); languageIn = RFC 4647 basic filtering; uniqueLang = one result per tag used twice; class = SHACL instance on cyclic graphs. "
        "Model tied to /repo by differential correspondence of full reports over all components x all value kinds (incl. ill-typed literals), closed+ignoredProperties included.",
   note=BASE_NOTE + "Literal lexical-to-value mapping (rdflib), regex matching (Python re) and string lengths enter the model as data computed by the harness; decimal->double promotion rounding is not modelled. "
        "Two deliberate deviations of /repo are listed as known findings (sh:closed ignores rdf:type rdfs:Resource; sh:datatype rdfs:Literal/rdfs:Datatype).",
   technique="Coq proof (component semantics = textual definition; three-way compare = SPARQL operator table) + vm_compute correspondence",
   ref="4 (C01)"),
})
CLAIMED.update({
 "C05": dict(
   text="Partial by design: SPARQL evaluation is rdflib's and enters the model as data (the rows every declared query returns for every focus/value node, obtained by the harness by running the query directly "
        "through rdflib with the SHACL-SPARQL pre-bindings). Coq proofs cover what pySHACL does with the rows: exactly the distinct solutions are kept (sound, complete up to equality of bindings, ?failure once), "
        "one result each, focus/value/path from ?this/?value/?path, and each result's messages are the templates instantiated with that solution's own bindings, for any number of results; ASK validators report one result per rejected value node. "
        "Correspondence over a template family of sh:sparql constraints and ASK/SELECT constraint components; forbidden syntax (MINUS, VALUES, SERVICE, AS ?this, nested SELECT) checked differentially.",
   note=BASE_NOTE + "Not modelled: the SPARQL engine; the regex screens for forbidden syntax and the textual pre-binding of $PATH (differential only). The variable name of a parameter (SHACLParameter.localname) has its own Coq model (Sparql/LocalName.v: ns#local and ns/local are pre-bound as local, distinct parameters get distinct names, the error case characterised) tied to the code on random ASCII IRIs. Message substitution ({?var}/{$var}) has its own Coq model (Sparql/Message.v: segments spell the template, bound values inserted verbatim and never re-scanned, unbound placeholders kept, dependence on the named bindings only) tied to both substitution sites of the code by a correspondence run on random templates and bindings.",
   technique="Coq proof over solution rows as data (oracle) + vm_compute correspondence + differential check of forbidden syntax",
   ref="4 (C05)"),
})
CLAIMED.update({
 "C06": dict(
   text="Coq proofs about the model of report assembly (create_validation_report / make_v_result): one report node with one sh:conforms literal = verdict and |results| sh:result links; every result node at any sh:detail depth has exactly one "
        "focusNode/severity/component/sourceShape/type and at most one value/resultPath, for every result list; verdict = all top-level severities waived under every option combination; a non-conforming report is never empty. "
        "On the real code: structural check of every report (graph, text, boolean agree; counts; well-formed nested results; terms denote terms of the validated graphs; blank-node descriptions copied) across 10 option settings incl. advanced, sparql_mode, inference and Dataset input; "
        "per-predicate triple counts compared with the model's report graph.",
   note=BASE_NOTE + "Report text is compared through its parsed Conforms/Results lines and result-block count; blank-node description copies are checked one level deep.",
   technique="Coq proof (pre-order labelling of nested results, counting lemmas) + structural differential check on real reports + vm_compute correspondence",
   ref="4 (C06)"),
})
CLAIMED.update({
 "C08": dict(
   text="Tie A (model regenerated every run): translator/t1.py turns the clone-before-write code of Validator.run / RuleExpandRunner.run, mix_in_ontology and the constructor guards into a PyMini program (coq/Gen/T1.v); "
        "Coq decides by evaluation over the finite domain (1280 option/container valuations x 13 fault points, lifted with forallb_forall) that no Write event ever hits the caller's ontology object and none hits the caller's data object unless inplace. "
        "The callee summaries and the translation are validated by comparing the recorded Clone/Write/Reg/Raised trace of the real code with the program's trace; the property itself is replayed on the real code with quad-level snapshots over "
        "{Graph, Dataset, ConjunctiveGraph} x ontology kinds x inference modes x advanced x iterate_rules x {validate, shacl_rules} x injected failures, shapes kept inside the data graph, containers that already hold graphs with pySHACL's reserved names, and ontologies that owl:import a local file under do_owl_imports=True. "
        "KNOWN FINDING (listed, not repaired): with do_owl_imports=True and the ontology given as a graph OBJECT the imported documents are loaded into the caller's ontology object (load_from_source, outside the translated pipeline code); the check prints KNOWN-FINDING for exactly that effect and reports any other change of the caller's objects. A second listed finding: one graph object handed over both as shacl_graph and as data (or ontology) graph receives the ShapesGraph constructor's two system triples.",
   note="Trusted: Coq kernel + vm_compute; the translator (fail-closed) and PyMini semantics with its ~10 callee summaries; the theorem speaks about the pipeline from Validator / RuleExpandRunner on - the loading stage before it (load_from_source, owl:imports) is covered by the snapshot runs only; that rdflib/owlrl/rules write only into the graph object they are handed is checked by the snapshot table, not proved.",
   technique="translation to a deep embedding + Coq evaluation over a finite domain (proof by reflection) + trace correspondence + fault enumeration on /repo",
   ref="4 (C08)"),
})
CLAIMED.update({
 "C10": dict(
   text="Tie A: translator/t1.py + t2.py regenerate, from entrypoints.validate/shacl_rules, Validator/RuleExpandRunner.__init__ and .run, the PyMini programs that flip rdflib's literal-parsing switches, register SPARQL functions and empty the id(graph)-keyed caches. "
        "Coq decides by evaluation (2 APIs x 1280 valuations x 13 fault points, lifted) that every call, wherever it fails, leaves the switches and the function registry as a fresh process has them, proves this invariant for every history by induction, "
        "and proves over an abstract cache/heap machine (edits, collection, allocation at reused addresses) that a call observes exactly what the same call observes in a fresh process - given that the generated constructors clear the caches (computed from the generated code), with a "
        "machine-checked counterexample for the machine without clearing. On the real code: seeded histories in one process vs each call repeated in a one-shot process on pickled copies of the then-current graphs; global-state snapshots after every call.",
   note="Trusted: Coq kernel + vm_compute; translators and PyMini summaries (each summary compared with the real callee); the cache/heap machine of coq/Mini/GlobalState.v is an abstraction (what a run consults = a list of nodes). "
        "Module state outside the named anchors (meta-SHACL graph cache, logging) is covered by the fresh-process comparison only. extras/js caches not modelled (pyduktape2 absent). Holds after fix commits 6dd27bd, 03a05ca, a79422a in /repo.",
   technique="translation to a deep embedding + Coq evaluation over a finite domain + invariant by induction over histories + fresh-process differential on /repo",
   ref="4 (C10)"),
})
CLAIMED.update({
 "C07": dict(
   text="Coq proofs: (a) the SPARQL text written for a SHACL path is read back by the SPARQL 1.1 property-path grammar (recursive-descent model, rules 88-94) as exactly that path, for every well-formed path of any nesting; "
        "(b) the batched `OPTIONAL {$f_i PATH ?v_i}` query, modelled as a chain of LeftJoins over disjoint variables, yields in column i exactly the solutions of pattern i for any number of focus nodes and solutions; "
        "(c) composed with C03: per focus node the sparql_mode value nodes equal the in-memory ones as sets, and the look-ups of the equals/disjoint/lessThan twins and the sh:class ASK agree with the in-memory definitions - under the stated assumption that the engine answers a path pattern by the SPARQL path relation; "
        "(d) Tie A: no Write event in any sparql_mode run of the generated Validator.run program. On the real code: printer and rdflib-parser correspondence, rdflib's result table vs the LeftJoin model, and the two-mode differential of validate() over core components with complex paths, nested shapes, SPARQL constraints and SPARQL targets, with data-graph snapshots.",
   note="Trusted: Coq kernel + vm_compute; hand-written models of the path printer/grammar and of LeftJoin (tied by correspondence); the engine assumption above (checked against rdflib by the differential; one listed known finding: rdflib MulPath truthiness). "
        "Not modelled: the VALUES-based target query, the closed twin's query and the per-row post-processing of the twins (two-mode differential only). Holds after fix commits cc855f9 (path text) and 3e96e57 (closed twin) in /repo.",
   technique="Coq proof (parser round trip by induction on paths with fuel bounds; LeftJoin chain invariant; composition with C03) + Tie-A evaluation + printer/parser/engine correspondence + two-mode differential on /repo",
   ref="4 (C07)"),
})
CLAIMED.update({
 "C15": dict(
   text="Coq proofs about the executable model of pyshacl.rules (gather order, apply_rules, TripleRule/SPARQLRule.apply, filter_conditions), parametric in the focus-node and condition-conformance functions: every input triple is kept and every other triple of the result is produced by an ACTIVE rule fired on a focus node of its shape "
        "(on the graph as it stood when the rule ran) that conforms to all sh:condition shapes; shapes and each shape's rules run in ascending sh:order regardless of harvest order (sorting is unique for pairwise distinct orders); deactivated rules are equivalent to absent ones; "
        "with iterate_rules a shape's loop ends only when no active rule can add a triple (quiescence); without it, one pass in order. The model is tied to /repo by differential correspondence of shacl_rules() outputs, and both are compared with an independent reference implementation of the documented procedure; "
        "validate(advanced=True) is compared with plain validation of the reference-expanded graph.",
   note=BASE_NOTE + "CONSTRUCT rules are modelled for basic-graph-pattern templates (the SPARQL engine is rdflib's); node expressions limited to sh:this/constant/sh:path (function calls: C17). Holds after fix commit 34b590c (use_shapes + sh:condition).",
   technique="Coq proof (loop invariants over the rule/shape/iteration loops; uniqueness of sorting) + vm_compute correspondence + differential against an independent reference implementation",
   ref="4 (C15)"),
})
CLAIMED.update({
 "C14": dict(
   text="Tie A: the pipeline programs generated from Validator.run / RuleExpandRunner.run / mix_in_ontology are executed in Coq under content summaries (inoculate = add the ontology's axioms, _run_pre_inference = add the closure of the union graph, apply_rules = add rule output, clone_graph = copy). "
        "Decided over all 1280 option valuations and lifted: the object validated in the end holds data, then axioms (iff ont_graph), then closure (iff inference active), then rule output - independent of the container kind and of inplace; hence, for ANY mixing/closure/rule functions, its denotation equals the graph expanded beforehand in the same way. "
        "Quad-level theorems: cloning keeps the union graph, writing into a named graph adds exactly the written triples, every distribution of T over named graphs has union T. "
        "On the real code: content traces, the callees on random distributions vs the quad model, and the differential of validate() on Graph vs Dataset/ConjunctiveGraph distributions (inplace on/off) and vs plain validation of the pre-expanded graph.",
   note="Trusted: Coq kernel + vm_compute; translator T1 + PyMini; the content summaries (checked against the real callees at quad level); rdflib's default_union reads; owlrl and the axiom selection of inoculate are used as given. Holds after fix commit 7a16a45 (ConjunctiveGraph + ont_graph + inplace).",
   technique="translation to a deep embedding + Coq evaluation over a finite domain (content view) + quad-level set proofs + callee correspondence + container/expansion differential on /repo",
   ref="4 (C14)"),
})
CLAIMED.update({
 "C20": dict(
   text="Coq proofs about a model, over character strings, of the loader's decisions (load_from_source): which str/bytes arguments are RDF text (anything starting with # @ < { [ or a line break; any text with a line break that is not a path or file:/http(s): reference; any text of 140+ characters; the empty text), "
        "the format sniffer (after any blank lines and indentation a Turtle header in any letter case - @prefix, PREFIX, @base, BASE, '# baseURI:' - gives turtle, an XML declaration or rdf: root gives xml, for documents of any length; a blank document terminates with 'no format') and the extension table. "
        "Tied to /repo by observing the real decisions (open() and Graph.parse intercepted, 5 s watchdog) on serialisations and perturbed headers. The property itself is checked differentially: each of the data, shapes and ontology arguments handed over as str, bytes, path, file: URI, open binary/text file, StringIO/BytesIO in turtle/nt/xml/json-ld, format stated or omitted where detectable, against Graph objects.",
   note=BASE_NOTE + "Parsing/serialisation are rdflib's (forms whose rdflib round trip is not isomorphic are skipped and counted); base-URI resolution and owl:imports not modelled. Holds after fix commits 6e42126, 06ec2c6, 97947e3 in /repo.",
   technique="Coq proof over strings (induction on leading white space for the readline loop; exhaustive ASCII case analysis) + decision correspondence + source-form differential on /repo",
   ref="4 (C20)"),
})
CLAIMED.update({
 "C16": dict(
   category="proof",
   text="PARTIAL by design. Proved (Tie A): the handler table of cli.main() is regenerated from pyshacl/cli.py (translator/t3.py: except clauses in order, their exit_code, finally block, final sys.exit, early exits; class table of errors.py) and, over Python's except-dispatch semantics on method resolution orders, "
        "EVERY exception class deriving from Exception ends the command line with status 2 or 3, or 1 for a ValidationFailure whose text is written; status 0 only after a conforming report, status 1 only after a written non-conforming report or validation failure; documented families map to 2/3/1. "
        "Also proved (Tie A, translators t4 / t5): the subclass closures generated from pyshacl/rdfutil/closure.py terminate with a result on every graph (no RecursionError for chains of any length), and the list check generated from ShapesGraph._check_rdf_lists never runs out of fuel and accepts exactly the shapes graphs whose rdf:rest chains all end (ring and rho-shaped lists are a ShapeLoadError; after acceptance every list can be enumerated). "
        "Also proved (Tie A, translator t6): the census of every `raise` statement of the modules on the validate() path - each raises a class of the documented families (below ReportableRuntimeError in errors.py, or NotImplementedError) or re-raises what it caught, is handled in the same function, is the signal of a helper every call of which sits in a try catching that class, or is one of the listed guards on Python argument types / code invariants; every `assert` statement of those modules is one of 20 listed ones. "
        "NOT a theorem: that no undocumented exception class escapes validate() through an IMPLICIT raise (a failing expression, an rdflib / re error). That half is decided by enumeration on the real code: ~190 hand-written ill-formed shapes graphs (every core parameter with wrong node kinds/datatypes, malformed lists/paths, bad regex, broken or misplaced SPARQL, dangling references, malformed rules/functions/targets/expressions) x options, randomly damaged well-formed shapes graphs, and the same causes through `python -m pyshacl`.",
   note="Trusted: Coq kernel + vm_compute; translators T3, T4, T5, T6; the list of internal guards in coq/Mini/Raises.v (each with its reason); the dispatch model of coq/Mini/Cli.v (checked against cli.main() run in-process with 21 exception classes). The former findings (cyclic rdf:rest -> rdflib ValueError; 1500-long subclass chain -> RecursionError in rdflib) are repaired in /repo and recorded as fixed. "
        "Holds after fix commits 10d6351 (CLI), e7b54c1 (SPARQL text), bf69731, a8b486e, 6a6c2c7, d5fb213, 405affd and the sh:namespace fix in /repo.",
   technique="translation of the CLI handler table, the closure loops, the list check and the census of raise statements + Coq proofs (except-dispatch on MROs for all exception classes; loop invariants; census decided over the generated tables) + enumeration of failure causes through API and CLI on /repo",
   ref="4 (C16)"),
})
CLAIMED.update({
 "C18": dict(
   text="PARTIAL by design. Proved (Tie A, tables regenerated from cli.py and entrypoints.py by translator/t3.py): every command-line option (argparse destination) is either structural (data, output, rules/server mode) or reaches a keyword of validate(), and every keyword the command line passes is one validate() reads; "
        "exit status 0 iff a conforming report was returned, 1 only with a written non-conforming report or validation failure (same dispatch model as C16). "
        "NOT a theorem: that serialised bytes parse back to the report - that is a statement about rdflib's serialisers and parsers. It is checked differentially: reports of generated cases (every literal kind, language tags, blank-node values, complex paths, sh:detail nesting) x turtle/xml/json-ld/nt/n3 through validate(serialize_report_graph=...) and through `python -m pyshacl -f ...`, plus the human and table formats (verdict, result count) and the exit status.",
   note="Trusted: Coq kernel + vm_compute; translator T3; the recorder-based check of the option values. Three listed known findings, all rooted in rdflib's serialisers/parsers (bare shorthand for ill-typed literals, native numeric/boolean forms, duplicated shared lists in Turtle/N3). The wording order of generated messages may differ between two runs (C09) and is compared order-free. Holds after fix commit 8fe873c (--max-depth).",
   technique="translation of the CLI option plumbing + Coq evaluation/lifting + serialisation round-trip differential through API and CLI on /repo",
   ref="4 (C18)"),
})
CLAIMED.update({
 "C09": dict(
   text="PARTIAL by design. Proved for the evaluator model: validating the shapes in any other order (the iteration order of the set of shapes) gives the same verdict and a permutation of the results (for any environment, data, options without abort_on_first); the environment is a look-up table whose order is immaterial when shape identifiers are distinct; "
        "a pick of an arbitrary element from a singleton set is choice-independent; the subclass closures generated from pyshacl/rdfutil/closure.py (Tie A) return the same node set for any two listings of the same triples; the member order of sh:and / sh:or / sh:xone lists is immaterial; focus nodes, the value nodes of any well-formed path and the reports of every core component are the same for two listings (permutations, repetitions) of the same triples - corollaries of the C02 / C03 / C01 correctness theorems. NOT a theorem: independence of the real code from blank-node labels, prefix bindings and PYTHONHASHSEED, and from triple insertion order through the rest of the pipeline. That is decided by a multi-process differential: every case is validated in a baseline process and in further processes with other hash seeds, shuffled insertion order, consistently relabelled blank nodes and other prefix bindings; "
        "verdict, result count of the text and the multiset of results (blank nodes named by their descriptions, nested details included) must be equal. Families: nested shapes, all core components, SPARQL constraints/components, rule sets with distinct sh:order through shacl_rules() and validate(advanced).",
   note=BASE_NOTE + "The order theorem is tied to /repo by the model-vs-implementation correspondence run with shuffled shape order. Default-message wording is not compared (the property allows its order to vary).",
   technique="Coq proof (permutation invariance of the shape loop) + vm_compute correspondence + multi-process hash-seed / permutation / relabelling differential on /repo",
   ref="4 (C09)"),
})
CLAIMED.update({
 "C17": dict(
   text="Partial by design (SPARQL evaluation is rdflib's; ?this solutions of targets and function results enter the model as data obtained by running the declared queries directly). Coq proofs: the advanced focus set is exactly the core focus nodes plus the ?this solutions of every custom target, without duplicates, and the core set when advanced is off; "
        "the SHACL-AF parameter order (ascending sh:order when every parameter has one, else by local name) contains every parameter exactly once and is ascending; the i-th argument of a call is bound to the i-th parameter of that order; a function's result is the first projected value of the first solution; "
        "sh:expression reports a value node exactly when its node expression (sh:this, constants, paths, nested function calls over a function table) does not evaluate to the single value true. "
        "On the real code: parameter order of the loader, expression constraints, SPARQL targets and parameterised target types, functions called from sh:sparql and from rule node expressions vs direct evaluation of the declared queries; advanced=False ignores all of them.",
   note=BASE_NOTE + "Function calls inside SPARQL text are checked differentially only. sh:optional parameters, union/intersection/filterShape expressions and JS are not generated. Holds after fix commits 1ab4a4d and the unbound-result fix in /repo.",
   technique="Coq proof (sorting/permutation of parameters, set characterisations) over oracle data + vm_compute correspondence + differential against direct query evaluation",
   ref="4 (C17)"),
})
NOT_YET = {}
ALL = ["C%02d" % i for i in range(1, 21)]
REASONS = {}
def main():
    checks = []
    for pid in ALL:
        if pid in CLAIMED:
            c = CLAIMED[pid]
            checks.append({
                "property_id": pid,
                "quick_cmd": "./check %s --tier quick" % pid,
                "thorough_cmd": "./check %s --tier thorough" % pid,
                "evidence_file": "evidence/%s.json" % pid,
                "replay_cmd_template": "./check %s --replay {path}" % pid,
                "engine": "coq+correspondence",
                "level_claimed": {"category": c.get("category", "proof"), "text": c["text"], "design_ref": "DESIGN.md section " + c["ref"]},
                "level_note": c["note"],
                "technique": c["technique"],
            })
    na = [{"property_id": p, "reason": REASONS.get(p, "not claimed yet: the Coq model and correspondence for this property are not built in this revision (see DESIGN.md section 4 for the planned statement)")}
          for p in ALL if p not in CLAIMED]
    m = {
        "version": 1,
        "setup_cmd": "cd coq && coq_makefile -f _CoqProject -o Makefile && timeout 3000 make -j16",
        "hooks": {"guard": "PYSHACL_VERIF", "enable": "no source hooks: the harness imports /repo and monkey-patches from its own process", "baseline_off_cmd": "cd /repo && /venv/bin/python -m pytest -ra -q -p no:cacheprovider --timeout=900 --continue-on-collection-errors", "source_commits": [], "add_only": True},
        "engines": [{"name": "coq+correspondence", "path": "check", "serves_properties": sorted(CLAIMED), "kind_free_text": "Coq 8.16 development under coq/ (models, specs, proofs) + Python harness under harness/ that rebuilds the proofs, evaluates the models with vm_compute on generated cases and compares with /repo"}],
        "checks": checks,
        "not_applicable": na,
        "notes": "See DESIGN.md. Every check rebuilds the Coq development, re-checks Print Assumptions, and runs the correspondence against /repo's working tree.",
    }
    json.dump(m, open(os.path.join(HERE, "MANIFEST.json"), "w"), indent=1)
    print("claimed:", sorted(CLAIMED))
if __name__ == "__main__":
    main()
